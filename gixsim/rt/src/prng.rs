//! One integer decides everything: SplitMix64 expands VERIF_SEED into independent xoshiro256** streams.

#[derive(Clone, Debug)]
pub struct Rng {
    s: [u64; 4],
}

pub fn splitmix(x: &mut u64) -> u64 {
    *x = x.wrapping_add(0x9E37_79B9_7F4A_7C15);
    let mut z = *x;
    z = (z ^ (z >> 30)).wrapping_mul(0xBF58_476D_1CE4_E5B9);
    z = (z ^ (z >> 27)).wrapping_mul(0x94D0_49BB_1331_11EB);
    z ^ (z >> 31)
}

/// Stream identifiers (DESIGN §2.2 "One integer").
pub const STREAM_WORKLOAD: u64 = 1;
pub const STREAM_SWARM: u64 = 2;
pub const STREAM_SCHED: u64 = 3;
pub const STREAM_FAULT: u64 = 4;
pub const STREAM_GETRANDOM: u64 = 5;

impl Rng {
    pub fn new(seed: u64) -> Self {
        let mut x = seed;
        let s = [splitmix(&mut x), splitmix(&mut x), splitmix(&mut x), splitmix(&mut x)];
        Rng { s }
    }
    /// Independent stream `stream` of run seed `seed`.
    pub fn stream(seed: u64, stream: u64) -> Self {
        let mut x = seed ^ stream.wrapping_mul(0xD6E8_FEB8_6659_FD93);
        let a = splitmix(&mut x);
        Rng::new(a ^ stream)
    }
    pub fn next_u64(&mut self) -> u64 {
        let s = &mut self.s;
        let result = s[1].wrapping_mul(5).rotate_left(7).wrapping_mul(9);
        let t = s[1] << 17;
        s[2] ^= s[0];
        s[3] ^= s[1];
        s[1] ^= s[2];
        s[0] ^= s[3];
        s[2] ^= t;
        s[3] = s[3].rotate_left(45);
        result
    }
    /// Uniform in 0..n (n > 0).
    pub fn below(&mut self, n: u64) -> u64 {
        if n <= 1 {
            return 0;
        }
        // multiply-shift; bias is irrelevant here
        ((self.next_u64() as u128 * n as u128) >> 64) as u64
    }
    pub fn range(&mut self, lo: u64, hi_incl: u64) -> u64 {
        lo + self.below(hi_incl - lo + 1)
    }
    pub fn usize_below(&mut self, n: usize) -> usize {
        self.below(n as u64) as usize
    }
    pub fn chance(&mut self, permille: u32) -> bool {
        self.below(1000) < permille as u64
    }
    pub fn pick<'a, T>(&mut self, v: &'a [T]) -> &'a T {
        &v[self.usize_below(v.len())]
    }
    pub fn fill(&mut self, buf: &mut [u8]) {
        for c in buf.chunks_mut(8) {
            let v = self.next_u64().to_le_bytes();
            c.copy_from_slice(&v[..c.len()]);
        }
    }
    pub fn bytes(&mut self, n: usize) -> Vec<u8> {
        let mut v = vec![0u8; n];
        self.fill(&mut v);
        v
    }
    pub fn shuffle<T>(&mut self, v: &mut [T]) {
        for i in (1..v.len()).rev() {
            let j = self.usize_below(i + 1);
            v.swap(i, j);
        }
    }
}

/// FNV-1a, used for event-log and schedule hashes (never for anything the code under test sees).
#[derive(Clone, Copy, Debug)]
pub struct Fnv(pub u64);
impl Default for Fnv {
    fn default() -> Self {
        Fnv(0xcbf2_9ce4_8422_2325)
    }
}
impl Fnv {
    pub fn write(&mut self, b: &[u8]) {
        for &x in b {
            self.0 ^= x as u64;
            self.0 = self.0.wrapping_mul(0x0000_0100_0000_01B3);
        }
    }
    pub fn write_u64(&mut self, v: u64) {
        self.write(&v.to_le_bytes());
    }
    pub fn of(b: &[u8]) -> u64 {
        let mut f = Fnv::default();
        f.write(b);
        f.0
    }
}
