//! gixsim streams: fault-injecting wrappers around byte sources and sinks (DESIGN §2.5), plus a tiny executor.
//! Every decision comes from a `Choices` stream (seeded while exploring, explicit while replaying), or from the
//! runtime's decision list when a simulation is active.
use crate::prng::Rng;
use std::cell::RefCell;
use std::collections::BTreeMap;
use std::io;
use std::rc::Rc;

/// A local decision stream for scenarios that do not need the thread runtime.
pub struct Choices {
    rng: Rng,
    replay: Option<Vec<u16>>,
    rp: usize,
    pub rec: Vec<u16>,
    pub faults: BTreeMap<String, u64>,
}
pub type Ch = Rc<RefCell<Choices>>;
impl Choices {
    pub fn new(seed: u64, stream: u64, replay: Option<Vec<u16>>) -> Ch {
        Rc::new(RefCell::new(Choices { rng: Rng::stream(seed, stream), replay, rp: 0, rec: vec![], faults: BTreeMap::new() }))
    }
    /// The same decision stream without the `Rc` (for seams shared between threads behind a `Mutex`).
    pub fn new_plain(seed: u64, stream: u64, replay: Option<Vec<u16>>) -> Choices {
        Choices { rng: Rng::stream(seed, stream), replay, rp: 0, rec: vec![], faults: BTreeMap::new() }
    }
    /// `n` options, 0 is the default ("no fault", "deliver everything").
    pub fn decide(&mut self, n: usize, gen: impl FnOnce(&mut Rng) -> usize) -> usize {
        if n <= 1 {
            return 0;
        }
        let c = match &self.replay {
            Some(r) => {
                let c = r.get(self.rp).map_or(0, |&c| c as usize % n);
                self.rp += 1;
                c
            }
            None => gen(&mut self.rng).min(n - 1),
        };
        if self.rec.len() < (1 << 20) {
            self.rec.push(c as u16);
        }
        c
    }
    pub fn coin(&mut self, name: &str, permille: u32) -> bool {
        if permille == 0 {
            return false;
        }
        let c = self.decide(2, |r| r.chance(permille) as usize) == 1;
        if c {
            *self.faults.entry(name.to_string()).or_insert(0) += 1;
        }
        c
    }
    pub fn note(&mut self, name: &str) {
        *self.faults.entry(name.to_string()).or_insert(0) += 1;
    }
}

#[derive(Clone, Debug, Default, serde::Serialize, serde::Deserialize)]
pub struct IoPlan {
    /// 0 = deliver whatever is asked; 1 = one byte at a time; otherwise chunk lengths are chosen per call in 1..=max_chunk
    pub max_chunk: usize,
    pub intr_permille: u32,
    pub pending_permille: u32,
    /// connection drop: EOF at this absolute offset
    pub eof_at: Option<u64>,
    /// hard error at this absolute offset
    pub err_at: Option<u64>,
    /// flip this bit mask at this absolute offset
    pub flip_at: Option<(u64, u8)>,
}
impl IoPlan {
    pub fn benign(&self) -> bool {
        self.eof_at.is_none() && self.err_at.is_none() && self.flip_at.is_none()
    }
}

fn chunk_len(ch: &Ch, plan: &IoPlan, want: usize) -> usize {
    if want <= 1 || plan.max_chunk == 0 {
        return want;
    }
    if plan.max_chunk == 1 {
        return 1;
    }
    let cap = want.min(plan.max_chunk);
    // decision 0 = everything that fits; otherwise a shorter chunk
    let c = ch.borrow_mut().decide(cap, |r| if r.chance(300) { 0 } else { r.usize_below(cap) });
    if c == 0 {
        cap
    } else {
        c
    }
}

pub struct FaultyRead {
    data: Vec<u8>,
    pos: usize,
    plan: IoPlan,
    ch: Ch,
    pub reads: u64,
}
impl FaultyRead {
    pub fn new(mut data: Vec<u8>, plan: IoPlan, ch: Ch) -> Self {
        if let Some((at, mask)) = plan.flip_at {
            if let Some(b) = data.get_mut(at as usize) {
                *b ^= mask;
                ch.borrow_mut().note("bit-flip");
            }
        }
        FaultyRead { data, pos: 0, plan, ch, reads: 0 }
    }
    fn limit(&self) -> usize {
        let mut l = self.data.len();
        if let Some(e) = self.plan.eof_at {
            l = l.min(e as usize);
        }
        l
    }
    pub fn position(&self) -> usize {
        self.pos
    }
}
impl io::Read for FaultyRead {
    fn read(&mut self, buf: &mut [u8]) -> io::Result<usize> {
        self.reads += 1;
        if buf.is_empty() {
            return Ok(0);
        }
        if self.ch.borrow_mut().coin("read-interrupted", self.plan.intr_permille) {
            return Err(io::Error::new(io::ErrorKind::Interrupted, "injected EINTR"));
        }
        if let Some(e) = self.plan.err_at {
            if self.pos >= e as usize {
                self.ch.borrow_mut().note("read-error");
                return Err(io::Error::new(io::ErrorKind::ConnectionReset, "injected read error"));
            }
        }
        let mut lim = self.limit();
        if let Some(e) = self.plan.err_at {
            lim = lim.min(e as usize);
        }
        if self.pos >= lim {
            if self.plan.eof_at.is_some() && self.pos < self.data.len() {
                self.ch.borrow_mut().note("early-eof");
            }
            return Ok(0);
        }
        let want = buf.len().min(lim - self.pos);
        let n = chunk_len(&self.ch, &self.plan, want);
        buf[..n].copy_from_slice(&self.data[self.pos..self.pos + n]);
        self.pos += n;
        Ok(n)
    }
}

pub struct FaultyWrite {
    pub out: Vec<u8>,
    plan: IoPlan,
    ch: Ch,
    pub writes: u64,
    pub flushes: u64,
}
impl FaultyWrite {
    pub fn new(plan: IoPlan, ch: Ch) -> Self {
        FaultyWrite { out: vec![], plan, ch, writes: 0, flushes: 0 }
    }
}
impl io::Write for FaultyWrite {
    fn write(&mut self, buf: &[u8]) -> io::Result<usize> {
        self.writes += 1;
        if buf.is_empty() {
            return Ok(0);
        }
        if self.ch.borrow_mut().coin("write-interrupted", self.plan.intr_permille) {
            return Err(io::Error::new(io::ErrorKind::Interrupted, "injected EINTR"));
        }
        if let Some(e) = self.plan.err_at {
            if self.out.len() >= e as usize {
                self.ch.borrow_mut().note("write-error");
                return Err(io::Error::new(io::ErrorKind::BrokenPipe, "injected write error"));
            }
        }
        let mut want = buf.len();
        if let Some(e) = self.plan.err_at {
            want = want.min(e as usize - self.out.len());
        }
        let n = chunk_len(&self.ch, &self.plan, want);
        if n < buf.len() {
            self.ch.borrow_mut().note("short-write");
        }
        self.out.extend_from_slice(&buf[..n]);
        Ok(n)
    }
    fn flush(&mut self) -> io::Result<()> {
        self.flushes += 1;
        Ok(())
    }
}

// ---- async ------------------------------------------------------------------------------------------------------------

use std::pin::Pin;
use std::task::{Context, Poll};

pub struct FaultyAsyncRead {
    inner: FaultyRead,
    pub pendings: u64,
}
impl FaultyAsyncRead {
    pub fn new(data: Vec<u8>, plan: IoPlan, ch: Ch) -> Self {
        FaultyAsyncRead { inner: FaultyRead::new(data, plan, ch), pendings: 0 }
    }
}
impl futures_io::AsyncRead for FaultyAsyncRead {
    fn poll_read(mut self: Pin<&mut Self>, cx: &mut Context<'_>, buf: &mut [u8]) -> Poll<io::Result<usize>> {
        let pp = self.inner.plan.pending_permille;
        if self.inner.ch.borrow_mut().coin("poll-pending", pp) {
            self.pendings += 1;
            cx.waker().wake_by_ref();
            return Poll::Pending;
        }
        // async readers never see Interrupted (futures' read_exact does not retry it): deliver chunks only
        let intr = std::mem::replace(&mut self.inner.plan.intr_permille, 0);
        let r = io::Read::read(&mut self.inner, buf);
        self.inner.plan.intr_permille = intr;
        Poll::Ready(r)
    }
}
pub struct FaultyAsyncWrite {
    pub inner: FaultyWrite,
}
impl futures_io::AsyncWrite for FaultyAsyncWrite {
    fn poll_write(mut self: Pin<&mut Self>, cx: &mut Context<'_>, buf: &[u8]) -> Poll<io::Result<usize>> {
        let pp = self.inner.plan.pending_permille;
        if self.inner.ch.borrow_mut().coin("poll-pending", pp) {
            cx.waker().wake_by_ref();
            return Poll::Pending;
        }
        let intr = std::mem::replace(&mut self.inner.plan.intr_permille, 0);
        let r = io::Write::write(&mut self.inner, buf);
        self.inner.plan.intr_permille = intr;
        Poll::Ready(r)
    }
    fn poll_flush(mut self: Pin<&mut Self>, _cx: &mut Context<'_>) -> Poll<io::Result<()>> {
        Poll::Ready(io::Write::flush(&mut self.inner))
    }
    fn poll_close(self: Pin<&mut Self>, _cx: &mut Context<'_>) -> Poll<io::Result<()>> {
        Poll::Ready(Ok(()))
    }
}

/// Single-threaded executor: polls until ready; a `Pending` without a wake-up is a lost wake-up (reported as Err).
pub fn block_on<F: std::future::Future>(f: F) -> Result<F::Output, String> {
    use std::sync::atomic::{AtomicU64, Ordering};
    use std::sync::Arc;
    use std::task::{RawWaker, RawWakerVTable, Waker};
    static VT: RawWakerVTable = RawWakerVTable::new(
        |p| {
            unsafe { Arc::increment_strong_count(p as *const AtomicU64) };
            RawWaker::new(p, &VT)
        },
        |p| {
            let a = unsafe { Arc::from_raw(p as *const AtomicU64) };
            a.fetch_add(1, Ordering::SeqCst);
        },
        |p| {
            let a = unsafe { &*(p as *const AtomicU64) };
            a.fetch_add(1, Ordering::SeqCst);
        },
        |p| unsafe { drop(Arc::from_raw(p as *const AtomicU64)) },
    );
    let wakes = Arc::new(AtomicU64::new(0));
    let raw = RawWaker::new(Arc::into_raw(wakes.clone()) as *const (), &VT);
    let waker = unsafe { Waker::from_raw(raw) };
    let mut cx = Context::from_waker(&waker);
    let mut f = std::pin::pin!(f);
    let mut polls = 0u64;
    loop {
        let before = wakes.load(Ordering::SeqCst);
        match f.as_mut().poll(&mut cx) {
            Poll::Ready(v) => return Ok(v),
            Poll::Pending => {
                polls += 1;
                if wakes.load(Ordering::SeqCst) == before {
                    return Err("future returned Pending without arranging a wake-up".into());
                }
                if polls > 50_000_000 {
                    return Err("future did not complete within the poll budget".into());
                }
            }
        }
    }
}

thread_local! {
    static PANIC_CAPTURE: RefCell<Option<Vec<String>>> = const { RefCell::new(None) };
}
/// Called by the global panic hook: true if the message was captured (nothing is printed then).
pub fn capture_panic_message(msg: &str) -> bool {
    PANIC_CAPTURE.with(|c| {
        if let Some(v) = c.borrow_mut().as_mut() {
            v.push(msg.to_string());
            true
        } else {
            false
        }
    })
}
/// Run code under test that may panic; returns its value or the captured panic messages.
pub fn catch_panics<T>(f: impl FnOnce() -> T) -> Result<T, Vec<String>> {
    PANIC_CAPTURE.with(|c| *c.borrow_mut() = Some(vec![]));
    let r = std::panic::catch_unwind(std::panic::AssertUnwindSafe(f));
    let msgs = PANIC_CAPTURE.with(|c| c.borrow_mut().take()).unwrap_or_default();
    match r {
        Ok(v) => Ok(v),
        Err(_) => Err(msgs),
    }
}
