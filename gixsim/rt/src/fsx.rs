//! gixsim disk: the real kernel file system on a per-run sandbox, seen through interposed libc entry points.
//! Every call on a sandbox path from a sim thread is a scheduling point; mutating calls are numbered (crash points),
//! can be snapshotted ("the disk if the process died here"), can fail with an errno from the fault plan, and stamp
//! the simulated clock into mtimes so that every timestamp-based decision of the code under test is a function of
//! the seed.
#![allow(clippy::missing_safety_doc)]

use crate::real_fn;
use crate::rt::{self, me, Why};
use libc::{c_char, c_int, c_uint, c_void, mode_t, off_t, size_t, ssize_t};
use std::cell::UnsafeCell;
use std::collections::BTreeMap;
use std::ffi::CStr;

#[derive(Clone, Debug, Default, serde::Serialize, serde::Deserialize)]
pub struct FsCfg {
    /// absolute path of the simulated root (no trailing slash); empty = fs layer off
    pub root: String,
    /// take a copy of the tree before every mutating call while a phase is set
    pub snapshot: bool,
    /// additionally snapshot torn prefixes of data writes
    pub torn: bool,
    /// die (`_exit`) right before mutation `kill_at` (counted while a phase is set)
    pub kill_at: Option<u64>,
    pub eintr_permille: u32,
    /// inject EINTR into writes only (callers that read with a bare `read()` need not retry by the property's letter)
    #[serde(default)]
    pub eintr_writes_only: bool,
    pub short_permille: u32,
    pub enospc_permille: u32,
    pub eio_permille: u32,
    pub emfile_permille: u32,
    /// quantise stamped mtimes to this many ns (coarse clock fault); 0 = exact
    pub coarse_ns: u64,
    pub stamp: bool,
}

#[derive(Clone, Debug)]
pub struct FsEvent {
    pub seq: u64,
    pub tid: usize,
    pub op: &'static str,
    pub path: Vec<u8>,
    pub path2: Vec<u8>,
    pub flags: i32,
    pub rc: i64,
    pub errno: i32,
    pub mutation: Option<u64>,
}

#[derive(Clone, Debug)]
pub struct Snap {
    pub k: u64,
    pub phase: String,
    pub label: String,
    pub dir: std::path::PathBuf,
    pub torn: Option<usize>,
}

struct FdInfo {
    path: Vec<u8>,
    dirty: bool,
}

pub struct Fsx {
    pub cfg: FsCfg,
    root: Vec<u8>,
    fds: BTreeMap<c_int, FdInfo>,
    pub mutations: u64,
    pub phase_mutations: u64,
    pub phase: Option<String>,
    pub snaps: Vec<Snap>,
    pub events: Vec<FsEvent>,
    pub record_events: bool,
    pub fsyncs: u64,
    pub killed: bool,
    pub faults_off: bool,
}
struct G(UnsafeCell<Option<Fsx>>);
unsafe impl Sync for G {}
static FSX: G = G(UnsafeCell::new(None));

pub fn configure(cfg: FsCfg) {
    let root = cfg.root.clone().into_bytes();
    unsafe {
        *FSX.0.get() = Some(Fsx {
            cfg,
            root,
            fds: BTreeMap::new(),
            mutations: 0,
            phase_mutations: 0,
            phase: None,
            snaps: vec![],
            events: vec![],
            record_events: true,
            fsyncs: 0,
            killed: false,
            faults_off: false,
        })
    }
}
#[allow(clippy::mut_from_ref)]
pub fn state() -> Option<&'static mut Fsx> {
    unsafe { (*FSX.0.get()).as_mut() }
}
pub fn take() -> Option<Fsx> {
    unsafe { (*FSX.0.get()).take() }
}
/// Mark the beginning/end of an operation whose mutations are crash points.
pub fn set_phase(p: Option<String>) {
    if let Some(s) = state() {
        s.phase = p;
    }
}
pub fn events_len() -> usize {
    state().map_or(0, |s| s.events.len())
}

fn errno_set(e: c_int) {
    unsafe { *libc::__errno_location() = e }
}
fn errno_get() -> c_int {
    unsafe { *libc::__errno_location() }
}

fn in_root(s: &Fsx, p: &[u8]) -> bool {
    !s.root.is_empty() && p.len() > s.root.len() && p.starts_with(&s.root) && p[s.root.len()] == b'/'
}
fn rel<'a>(s: &Fsx, p: &'a [u8]) -> &'a [u8] {
    &p[s.root.len() + 1..]
}
pub fn show(p: &[u8]) -> String {
    let mut o = String::new();
    for &b in p {
        if (0x20..0x7f).contains(&b) && b != b'\\' {
            o.push(b as char)
        } else {
            o.push_str(&format!("\\x{b:02x}"))
        }
    }
    o
}

/// Resolve (dirfd, path) to an absolute sandbox path if it is one and the caller is a sim thread.
unsafe fn resolve(dirfd: c_int, path: *const c_char) -> Option<(usize, Vec<u8>)> {
    let m = me()?;
    let s = state()?;
    if path.is_null() {
        return None;
    }
    let p = CStr::from_ptr(path).to_bytes();
    if p.first() == Some(&b'/') {
        if in_root(s, p) {
            return Some((m, p.to_vec()));
        }
        return None;
    }
    if dirfd == libc::AT_FDCWD {
        return None;
    }
    let d = s.fds.get(&dirfd)?;
    let mut full = d.path.clone();
    if !p.is_empty() {
        full.push(b'/');
        full.extend_from_slice(p);
    }
    Some((m, full))
}
unsafe fn resolve_fd(fd: c_int) -> Option<usize> {
    let m = me()?;
    let s = state()?;
    if s.fds.contains_key(&fd) {
        Some(m)
    } else {
        None
    }
}

fn log(op: &'static str, tid: usize, path: &[u8], path2: &[u8], flags: i32, rc: i64, mutation: Option<u64>) {
    let s = match state() {
        Some(s) => s,
        None => return,
    };
    let e = if rc < 0 { errno_get() } else { 0 };
    let p = if in_root(s, path) { rel(s, path) } else { path };
    let p2 = if in_root(s, path2) { rel(s, path2) } else { path2 };
    rt::event(&format!("fs {op} {} {} f={flags:#x} rc={rc} e={e}", show(p), show(p2)));
    if s.record_events {
        let seq = rt::seq();
        let (p, p2) = (p.to_vec(), p2.to_vec());
        s.events.push(FsEvent { seq, tid, op, path: p, path2: p2, flags, rc, errno: e, mutation });
    }
    if rc < 0 {
        errno_set(e);
    }
}

fn copy_tree(from: &std::path::Path, to: &std::path::Path) {
    let _ = std::fs::create_dir_all(to);
    let rd = match std::fs::read_dir(from) {
        Ok(r) => r,
        Err(_) => return,
    };
    for e in rd.flatten() {
        let ft = match e.file_type() {
            Ok(f) => f,
            Err(_) => continue,
        };
        let dst = to.join(e.file_name());
        if ft.is_dir() {
            copy_tree(&e.path(), &dst);
        } else if ft.is_symlink() {
            if let Ok(t) = std::fs::read_link(e.path()) {
                let _ = std::os::unix::fs::symlink(t, &dst);
            }
        } else {
            let _ = std::fs::copy(e.path(), &dst);
        }
    }
}

/// Called before a mutating call is performed. Returns the mutation index.
unsafe fn before_mutation(label: &str, torn: Option<(c_int, &[u8])>) -> u64 {
    let s = state().unwrap();
    let k = s.mutations;
    s.mutations += 1;
    if let Some(sh) = rt::shm() {
        *sh.hdr_u64(3) = s.mutations;
    }
    if let Some(phase) = s.phase.clone() {
        let pk = s.phase_mutations;
        s.phase_mutations += 1;
        if s.cfg.kill_at == Some(pk) {
            s.killed = true;
            rt::event(&format!("KILL before mutation {pk} {label}"));
            crate::driver::child_exit_killed(pk, label);
        }
        if s.cfg.snapshot {
            use std::os::unix::ffi::OsStrExt;
            let root = std::path::PathBuf::from(std::ffi::OsStr::from_bytes(&s.root));
            let base = root.parent().unwrap().join("snap");
            rt::bypass(|| {
                let dir = base.join(format!("{pk}"));
                copy_tree(&root, &dir);
                s.snaps.push(Snap { k: pk, phase: phase.clone(), label: label.to_string(), dir, torn: None });
                if s.cfg.torn {
                    if let Some((fd, data)) = torn {
                        if let Some(info) = s.fds.get(&fd) {
                            let relp = std::path::PathBuf::from(std::ffi::OsStr::from_bytes(rel(s, &info.path)));
                            let off = libc::lseek(fd, 0, libc::SEEK_CUR);
                            let mut lens: Vec<usize> = if data.len() <= 64 { (1..data.len()).collect() } else { vec![1, data.len() / 2, data.len() - 1] };
                            lens.dedup();
                            for l in lens {
                                let dir = base.join(format!("{pk}t{l}"));
                                copy_tree(&root, &dir);
                                if let Ok(f) = std::fs::OpenOptions::new().write(true).open(dir.join(&relp)) {
                                    use std::os::unix::fs::FileExt;
                                    let _ = f.write_at(&data[..l], off.max(0) as u64);
                                }
                                s.snaps.push(Snap { k: pk, phase: phase.clone(), label: format!("{label} torn@{l}"), dir, torn: Some(l) });
                            }
                        }
                    }
                }
            });
        }
    }
    k
}

unsafe fn stamp_path(path: &[u8]) {
    let s = state().unwrap();
    if !s.cfg.stamp {
        return;
    }
    rt::advance_clock(1_000);
    let (mut sec, mut nsec) = rt::sim_realtime();
    if s.cfg.coarse_ns > 0 {
        let total = sec as u128 * 1_000_000_000 + nsec as u128;
        let q = total - total % s.cfg.coarse_ns as u128;
        sec = (q / 1_000_000_000) as i64;
        nsec = (q % 1_000_000_000) as i64;
    }
    let ts = [libc::timespec { tv_sec: sec, tv_nsec: nsec }, libc::timespec { tv_sec: sec, tv_nsec: nsec }];
    let mut c = path.to_vec();
    c.push(0);
    let f = real_fn!("utimensat", unsafe extern "C" fn(c_int, *const c_char, *const libc::timespec, c_int) -> c_int);
    let e = errno_get();
    f(libc::AT_FDCWD, c.as_ptr() as *const c_char, ts.as_ptr(), libc::AT_SYMLINK_NOFOLLOW);
    errno_set(e);
}

fn coin(name: &str, permille: u32) -> bool {
    permille > 0 && !state().map_or(false, |s| s.faults_off) && rt::fault_coin(name, permille)
}
/// Harness-side file operations inside the simulation (fixtures, foreign actors) are stamped and scheduled but never faulted.
pub fn without_faults<T>(f: impl FnOnce() -> T) -> T {
    let prev = state().map(|s| std::mem::replace(&mut s.faults_off, true));
    let r = f();
    if let (Some(s), Some(p)) = (state(), prev) {
        s.faults_off = p;
    }
    r
}

// ---- open family ------------------------------------------------------------------------------------------------

type OpenAtFn = unsafe extern "C" fn(c_int, *const c_char, c_int, mode_t) -> c_int;
unsafe fn do_open(op: &'static str, dirfd: c_int, path: *const c_char, flags: c_int, mode: mode_t, realf: OpenAtFn) -> c_int {
    let (m, full) = match resolve(dirfd, path) {
        Some(x) => x,
        None => return realf(dirfd, path, flags, mode),
    };
    rt::switch_from(m, Why::Fs);
    let s = state().unwrap();
    let creates = flags & libc::O_CREAT != 0 || flags & libc::O_TMPFILE == libc::O_TMPFILE;
    let truncs = flags & libc::O_TRUNC != 0;
    if coin("emfile", s.cfg.emfile_permille) {
        errno_set(libc::EMFILE);
        log(op, m, &full, b"", flags, -1, None);
        return -1;
    }
    let mut mutation = None;
    if creates || truncs {
        if creates && coin("enospc-create", s.cfg.enospc_permille) {
            errno_set(libc::ENOSPC);
            log(op, m, &full, b"", flags, -1, None);
            return -1;
        }
        // only a mutation if the file does not exist yet or gets truncated; decided by the kernel, so count it always
        mutation = Some(before_mutation(&format!("{op} {}", show(rel(s, &full))), None));
    }
    let rc = realf(dirfd, path, flags, mode);
    if rc >= 0 {
        s.fds.insert(rc, FdInfo { path: full.clone(), dirty: false });
        if creates {
            let e = errno_get();
            stamp_path(&full);
            errno_set(e);
        }
    }
    log(op, m, &full, b"", flags, rc as i64, mutation);
    rc
}
#[no_mangle]
pub unsafe extern "C" fn open(path: *const c_char, flags: c_int, mode: mode_t) -> c_int {
    unsafe extern "C" fn r(_d: c_int, p: *const c_char, f: c_int, m: mode_t) -> c_int {
        let g = real_fn!("open", unsafe extern "C" fn(*const c_char, c_int, mode_t) -> c_int);
        g(p, f, m)
    }
    do_open("open", libc::AT_FDCWD, path, flags, mode, r)
}
#[no_mangle]
pub unsafe extern "C" fn open64(path: *const c_char, flags: c_int, mode: mode_t) -> c_int {
    unsafe extern "C" fn r(_d: c_int, p: *const c_char, f: c_int, m: mode_t) -> c_int {
        let g = real_fn!("open64", unsafe extern "C" fn(*const c_char, c_int, mode_t) -> c_int);
        g(p, f, m)
    }
    do_open("open", libc::AT_FDCWD, path, flags, mode, r)
}
#[no_mangle]
pub unsafe extern "C" fn openat(dirfd: c_int, path: *const c_char, flags: c_int, mode: mode_t) -> c_int {
    unsafe extern "C" fn r(d: c_int, p: *const c_char, f: c_int, m: mode_t) -> c_int {
        let g = real_fn!("openat", OpenAtFn);
        g(d, p, f, m)
    }
    do_open("open", dirfd, path, flags, mode, r)
}
#[no_mangle]
pub unsafe extern "C" fn openat64(dirfd: c_int, path: *const c_char, flags: c_int, mode: mode_t) -> c_int {
    unsafe extern "C" fn r(d: c_int, p: *const c_char, f: c_int, m: mode_t) -> c_int {
        let g = real_fn!("openat64", OpenAtFn);
        g(d, p, f, m)
    }
    do_open("open", dirfd, path, flags, mode, r)
}
#[no_mangle]
pub unsafe extern "C" fn creat(path: *const c_char, mode: mode_t) -> c_int {
    open(path, libc::O_CREAT | libc::O_WRONLY | libc::O_TRUNC, mode)
}
#[no_mangle]
pub unsafe extern "C" fn creat64(path: *const c_char, mode: mode_t) -> c_int {
    open64(path, libc::O_CREAT | libc::O_WRONLY | libc::O_TRUNC, mode)
}

#[no_mangle]
pub unsafe extern "C" fn close(fd: c_int) -> c_int {
    let f = real_fn!("close", unsafe extern "C" fn(c_int) -> c_int);
    if resolve_fd(fd).is_none() {
        // a non-sim thread (or a bypassed one) may close an fd the table knows: forget it
        if rt::is_sim_thread() {
            if let Some(s) = state() {
                s.fds.remove(&fd);
            }
        }
        return f(fd);
    }
    let m = me().unwrap();
    rt::switch_from(m, Why::Fs);
    let s = state().unwrap();
    let info = s.fds.remove(&fd).unwrap();
    let rc = f(fd);
    if info.dirty {
        let e = errno_get();
        stamp_path(&info.path);
        errno_set(e);
    }
    log("close", m, &info.path, b"", 0, rc as i64, None);
    rc
}

// ---- data ---------------------------------------------------------------------------------------------------------

unsafe fn write_common(op: &'static str, fd: c_int, buf: *const c_void, n: size_t, doit: &dyn Fn(size_t) -> ssize_t) -> ssize_t {
    let m = match resolve_fd(fd) {
        Some(m) => m,
        None => return doit(n),
    };
    rt::switch_from(m, Why::Fs);
    let s = state().unwrap();
    let path = s.fds.get(&fd).unwrap().path.clone();
    if coin("eintr-write", s.cfg.eintr_permille) {
        errno_set(libc::EINTR);
        log(op, m, &path, b"", n as i32, -1, None);
        return -1;
    }
    if coin("enospc-write", s.cfg.enospc_permille) {
        errno_set(libc::ENOSPC);
        log(op, m, &path, b"", n as i32, -1, None);
        return -1;
    }
    if coin("eio-write", s.cfg.eio_permille) {
        errno_set(libc::EIO);
        log(op, m, &path, b"", n as i32, -1, None);
        return -1;
    }
    let mut len = n;
    if n > 1 && coin("short-write", s.cfg.short_permille) {
        len = 1 + rt::fault_choice(n - 1);
    }
    let data = std::slice::from_raw_parts(buf as *const u8, len);
    let k = before_mutation(&format!("{op} {} +{len}", show(rel(s, &path))), Some((fd, data)));
    let rc = doit(len);
    if rc > 0 {
        if let Some(i) = s.fds.get_mut(&fd) {
            i.dirty = true;
        }
    }
    log(op, m, &path, b"", n as i32, rc as i64, Some(k));
    rc
}
#[no_mangle]
pub unsafe extern "C" fn write(fd: c_int, buf: *const c_void, n: size_t) -> ssize_t {
    let f = real_fn!("write", unsafe extern "C" fn(c_int, *const c_void, size_t) -> ssize_t);
    write_common("write", fd, buf, n, &|l| f(fd, buf, l))
}
#[no_mangle]
pub unsafe extern "C" fn pwrite64(fd: c_int, buf: *const c_void, n: size_t, off: off_t) -> ssize_t {
    let f = real_fn!("pwrite64", unsafe extern "C" fn(c_int, *const c_void, size_t, off_t) -> ssize_t);
    write_common("pwrite", fd, buf, n, &|l| f(fd, buf, l, off))
}
#[no_mangle]
pub unsafe extern "C" fn pwrite(fd: c_int, buf: *const c_void, n: size_t, off: off_t) -> ssize_t {
    pwrite64(fd, buf, n, off)
}
#[no_mangle]
pub unsafe extern "C" fn writev(fd: c_int, iov: *const libc::iovec, cnt: c_int) -> ssize_t {
    let f = real_fn!("writev", unsafe extern "C" fn(c_int, *const libc::iovec, c_int) -> ssize_t);
    if resolve_fd(fd).is_none() {
        return f(fd, iov, cnt);
    }
    // present a vectored write to a sandbox file as a plain write of its first non-empty buffer (legal: short write)
    for i in 0..cnt {
        let v = &*iov.add(i as usize);
        if v.iov_len > 0 {
            return write(fd, v.iov_base, v.iov_len);
        }
    }
    0
}

unsafe fn read_common(op: &'static str, fd: c_int, n: size_t, doit: &dyn Fn(size_t) -> ssize_t) -> ssize_t {
    let m = match resolve_fd(fd) {
        Some(m) => m,
        None => return doit(n),
    };
    rt::switch_from(m, Why::Fs);
    let s = state().unwrap();
    let path = s.fds.get(&fd).unwrap().path.clone();
    if !s.cfg.eintr_writes_only && coin("eintr-read", s.cfg.eintr_permille) {
        errno_set(libc::EINTR);
        log(op, m, &path, b"", n as i32, -1, None);
        return -1;
    }
    let mut len = n;
    if n > 1 && coin("short-read", s.cfg.short_permille) {
        len = 1 + rt::fault_choice(n - 1);
    }
    let rc = doit(len);
    log(op, m, &path, b"", n as i32, rc as i64, None);
    rc
}
#[no_mangle]
pub unsafe extern "C" fn read(fd: c_int, buf: *mut c_void, n: size_t) -> ssize_t {
    let f = real_fn!("read", unsafe extern "C" fn(c_int, *mut c_void, size_t) -> ssize_t);
    read_common("read", fd, n, &|l| f(fd, buf, l))
}
#[no_mangle]
pub unsafe extern "C" fn pread64(fd: c_int, buf: *mut c_void, n: size_t, off: off_t) -> ssize_t {
    let f = real_fn!("pread64", unsafe extern "C" fn(c_int, *mut c_void, size_t, off_t) -> ssize_t);
    read_common("pread", fd, n, &|l| f(fd, buf, l, off))
}
#[no_mangle]
pub unsafe extern "C" fn readv(fd: c_int, iov: *const libc::iovec, cnt: c_int) -> ssize_t {
    let f = real_fn!("readv", unsafe extern "C" fn(c_int, *const libc::iovec, c_int) -> ssize_t);
    if resolve_fd(fd).is_none() {
        return f(fd, iov, cnt);
    }
    for i in 0..cnt {
        let v = &*iov.add(i as usize);
        if v.iov_len > 0 {
            return read(fd, v.iov_base, v.iov_len);
        }
    }
    0
}

unsafe fn fd_simple(op: &'static str, fd: c_int, mutating: bool, fault: Option<(&str, u32, c_int)>, doit: &dyn Fn() -> c_int) -> c_int {
    let m = match resolve_fd(fd) {
        Some(m) => m,
        None => return doit(),
    };
    rt::switch_from(m, Why::Fs);
    let s = state().unwrap();
    let path = s.fds.get(&fd).unwrap().path.clone();
    if let Some((name, pm, e)) = fault {
        if coin(name, pm) {
            errno_set(e);
            log(op, m, &path, b"", 0, -1, None);
            return -1;
        }
    }
    let k = if mutating { Some(before_mutation(&format!("{op} {}", show(rel(s, &path))), None)) } else { None };
    let rc = doit();
    if mutating && rc == 0 {
        if let Some(i) = s.fds.get_mut(&fd) {
            i.dirty = true;
        }
    }
    log(op, m, &path, b"", 0, rc as i64, k);
    rc
}
#[no_mangle]
pub unsafe extern "C" fn ftruncate(fd: c_int, len: off_t) -> c_int {
    let f = real_fn!("ftruncate", unsafe extern "C" fn(c_int, off_t) -> c_int);
    fd_simple("ftruncate", fd, true, None, &|| f(fd, len))
}
#[no_mangle]
pub unsafe extern "C" fn ftruncate64(fd: c_int, len: off_t) -> c_int {
    let f = real_fn!("ftruncate64", unsafe extern "C" fn(c_int, off_t) -> c_int);
    fd_simple("ftruncate", fd, true, None, &|| f(fd, len))
}
#[no_mangle]
pub unsafe extern "C" fn fsync(fd: c_int) -> c_int {
    let f = real_fn!("fsync", unsafe extern "C" fn(c_int) -> c_int);
    if resolve_fd(fd).is_some() {
        state().unwrap().fsyncs += 1;
    }
    let pm = state().map_or(0, |s| s.cfg.eio_permille);
    fd_simple("fsync", fd, false, Some(("eio-fsync", pm, libc::EIO)), &|| f(fd))
}
#[no_mangle]
pub unsafe extern "C" fn fdatasync(fd: c_int) -> c_int {
    let f = real_fn!("fdatasync", unsafe extern "C" fn(c_int) -> c_int);
    if resolve_fd(fd).is_some() {
        state().unwrap().fsyncs += 1;
    }
    let pm = state().map_or(0, |s| s.cfg.eio_permille);
    fd_simple("fdatasync", fd, false, Some(("eio-fsync", pm, libc::EIO)), &|| f(fd))
}
#[no_mangle]
pub unsafe extern "C" fn fchmod(fd: c_int, mode: mode_t) -> c_int {
    let f = real_fn!("fchmod", unsafe extern "C" fn(c_int, mode_t) -> c_int);
    fd_simple("fchmod", fd, true, None, &|| f(fd, mode))
}
#[no_mangle]
pub unsafe extern "C" fn fstat(fd: c_int, st: *mut libc::stat) -> c_int {
    let f = real_fn!("fstat", unsafe extern "C" fn(c_int, *mut libc::stat) -> c_int);
    fd_simple("fstat", fd, false, None, &|| f(fd, st))
}
#[no_mangle]
pub unsafe extern "C" fn fstat64(fd: c_int, st: *mut libc::stat64) -> c_int {
    let f = real_fn!("fstat64", unsafe extern "C" fn(c_int, *mut libc::stat64) -> c_int);
    fd_simple("fstat", fd, false, None, &|| f(fd, st))
}

// ---- path operations --------------------------------------------------------------------------------------------------

/// One-path operation.
unsafe fn path1(
    op: &'static str,
    dirfd: c_int,
    path: *const c_char,
    flags: i32,
    mutating: bool,
    fault: Option<(&str, u32, c_int)>,
    stamp: bool,
    doit: &dyn Fn() -> c_int,
) -> c_int {
    let (m, full) = match resolve(dirfd, path) {
        Some(x) => x,
        None => return doit(),
    };
    rt::switch_from(m, Why::Fs);
    let s = state().unwrap();
    if let Some((name, pm, e)) = fault {
        if coin(name, pm) {
            errno_set(e);
            log(op, m, &full, b"", flags, -1, None);
            return -1;
        }
    }
    let k = if mutating { Some(before_mutation(&format!("{op} {}", show(rel(s, &full))), None)) } else { None };
    let rc = doit();
    if rc == 0 && stamp {
        let e = errno_get();
        stamp_path(&full);
        errno_set(e);
    }
    log(op, m, &full, b"", flags, rc as i64, k);
    rc
}
/// Two-path operation (rename, link).
unsafe fn path2(
    op: &'static str,
    d1: c_int,
    p1: *const c_char,
    d2: c_int,
    p2: *const c_char,
    flags: i32,
    fault: Option<(&str, u32, c_int)>,
    doit: &dyn Fn() -> c_int,
) -> c_int {
    let a = resolve(d1, p1);
    let b = resolve(d2, p2);
    let (m, fa, fb) = match (a, b) {
        (Some((m, fa)), Some((_, fb))) => (m, fa, fb),
        (Some((m, fa)), None) => (m, fa, if p2.is_null() { vec![] } else { CStr::from_ptr(p2).to_bytes().to_vec() }),
        (None, Some((m, fb))) => (m, if p1.is_null() { vec![] } else { CStr::from_ptr(p1).to_bytes().to_vec() }, fb),
        (None, None) => return doit(),
    };
    rt::switch_from(m, Why::Fs);
    let s = state().unwrap();
    if let Some((name, pm, e)) = fault {
        if coin(name, pm) {
            errno_set(e);
            log(op, m, &fa, &fb, flags, -1, None);
            return -1;
        }
    }
    let la = if in_root(s, &fa) { show(rel(s, &fa)) } else { show(&fa) };
    let lb = if in_root(s, &fb) { show(rel(s, &fb)) } else { show(&fb) };
    let k = before_mutation(&format!("{op} {la} -> {lb}"), None);
    let rc = doit();
    if rc == 0 && in_root(s, &fb) {
        let e = errno_get();
        stamp_path(&fb);
        errno_set(e);
    }
    log(op, m, &fa, &fb, flags, rc as i64, Some(k));
    rc
}

#[no_mangle]
pub unsafe extern "C" fn rename(a: *const c_char, b: *const c_char) -> c_int {
    let f = real_fn!("rename", unsafe extern "C" fn(*const c_char, *const c_char) -> c_int);
    let pm = state().map_or(0, |s| s.cfg.eio_permille);
    path2("rename", libc::AT_FDCWD, a, libc::AT_FDCWD, b, 0, Some(("eio-rename", pm, libc::EIO)), &|| f(a, b))
}
#[no_mangle]
pub unsafe extern "C" fn renameat(d1: c_int, a: *const c_char, d2: c_int, b: *const c_char) -> c_int {
    let f = real_fn!("renameat", unsafe extern "C" fn(c_int, *const c_char, c_int, *const c_char) -> c_int);
    let pm = state().map_or(0, |s| s.cfg.eio_permille);
    path2("rename", d1, a, d2, b, 0, Some(("eio-rename", pm, libc::EIO)), &|| f(d1, a, d2, b))
}
#[no_mangle]
pub unsafe extern "C" fn renameat2(d1: c_int, a: *const c_char, d2: c_int, b: *const c_char, fl: c_uint) -> c_int {
    let f = real_fn!("renameat2", unsafe extern "C" fn(c_int, *const c_char, c_int, *const c_char, c_uint) -> c_int);
    let pm = state().map_or(0, |s| s.cfg.eio_permille);
    path2("rename", d1, a, d2, b, fl as i32, Some(("eio-rename", pm, libc::EIO)), &|| f(d1, a, d2, b, fl))
}
#[no_mangle]
pub unsafe extern "C" fn link(a: *const c_char, b: *const c_char) -> c_int {
    let f = real_fn!("link", unsafe extern "C" fn(*const c_char, *const c_char) -> c_int);
    path2("link", libc::AT_FDCWD, a, libc::AT_FDCWD, b, 0, None, &|| f(a, b))
}
#[no_mangle]
pub unsafe extern "C" fn linkat(d1: c_int, a: *const c_char, d2: c_int, b: *const c_char, fl: c_int) -> c_int {
    let f = real_fn!("linkat", unsafe extern "C" fn(c_int, *const c_char, c_int, *const c_char, c_int) -> c_int);
    path2("link", d1, a, d2, b, fl, None, &|| f(d1, a, d2, b, fl))
}
#[no_mangle]
pub unsafe extern "C" fn symlink(target: *const c_char, linkpath: *const c_char) -> c_int {
    let f = real_fn!("symlink", unsafe extern "C" fn(*const c_char, *const c_char) -> c_int);
    path1("symlink", libc::AT_FDCWD, linkpath, 0, true, None, true, &|| f(target, linkpath))
}
#[no_mangle]
pub unsafe extern "C" fn symlinkat(target: *const c_char, d: c_int, linkpath: *const c_char) -> c_int {
    let f = real_fn!("symlinkat", unsafe extern "C" fn(*const c_char, c_int, *const c_char) -> c_int);
    path1("symlink", d, linkpath, 0, true, None, true, &|| f(target, d, linkpath))
}
#[no_mangle]
pub unsafe extern "C" fn unlink(p: *const c_char) -> c_int {
    let f = real_fn!("unlink", unsafe extern "C" fn(*const c_char) -> c_int);
    path1("unlink", libc::AT_FDCWD, p, 0, true, None, false, &|| f(p))
}
#[no_mangle]
pub unsafe extern "C" fn unlinkat(d: c_int, p: *const c_char, fl: c_int) -> c_int {
    let f = real_fn!("unlinkat", unsafe extern "C" fn(c_int, *const c_char, c_int) -> c_int);
    let op = if fl & libc::AT_REMOVEDIR != 0 { "rmdir" } else { "unlink" };
    path1(op, d, p, fl, true, None, false, &|| f(d, p, fl))
}
#[no_mangle]
pub unsafe extern "C" fn rmdir(p: *const c_char) -> c_int {
    let f = real_fn!("rmdir", unsafe extern "C" fn(*const c_char) -> c_int);
    path1("rmdir", libc::AT_FDCWD, p, 0, true, None, false, &|| f(p))
}
#[no_mangle]
pub unsafe extern "C" fn mkdir(p: *const c_char, mode: mode_t) -> c_int {
    let f = real_fn!("mkdir", unsafe extern "C" fn(*const c_char, mode_t) -> c_int);
    let pm = state().map_or(0, |s| s.cfg.enospc_permille);
    path1("mkdir", libc::AT_FDCWD, p, 0, true, Some(("enospc-mkdir", pm, libc::ENOSPC)), false, &|| f(p, mode))
}
#[no_mangle]
pub unsafe extern "C" fn mkdirat(d: c_int, p: *const c_char, mode: mode_t) -> c_int {
    let f = real_fn!("mkdirat", unsafe extern "C" fn(c_int, *const c_char, mode_t) -> c_int);
    let pm = state().map_or(0, |s| s.cfg.enospc_permille);
    path1("mkdir", d, p, 0, true, Some(("enospc-mkdir", pm, libc::ENOSPC)), false, &|| f(d, p, mode))
}
#[no_mangle]
pub unsafe extern "C" fn chmod(p: *const c_char, mode: mode_t) -> c_int {
    let f = real_fn!("chmod", unsafe extern "C" fn(*const c_char, mode_t) -> c_int);
    path1("chmod", libc::AT_FDCWD, p, 0, true, None, false, &|| f(p, mode))
}
#[no_mangle]
pub unsafe extern "C" fn fchmodat(d: c_int, p: *const c_char, mode: mode_t, fl: c_int) -> c_int {
    let f = real_fn!("fchmodat", unsafe extern "C" fn(c_int, *const c_char, mode_t, c_int) -> c_int);
    path1("chmod", d, p, fl, true, None, false, &|| f(d, p, mode, fl))
}
#[no_mangle]
pub unsafe extern "C" fn utimensat(d: c_int, p: *const c_char, ts: *const libc::timespec, fl: c_int) -> c_int {
    let f = real_fn!("utimensat", unsafe extern "C" fn(c_int, *const c_char, *const libc::timespec, c_int) -> c_int);
    if p.is_null() {
        return f(d, p, ts, fl);
    }
    path1("utimens", d, p, fl, true, None, false, &|| f(d, p, ts, fl))
}

// stat family: scheduling points, never faulted
#[no_mangle]
pub unsafe extern "C" fn stat(p: *const c_char, st: *mut libc::stat) -> c_int {
    let f = real_fn!("stat", unsafe extern "C" fn(*const c_char, *mut libc::stat) -> c_int);
    path1("stat", libc::AT_FDCWD, p, 0, false, None, false, &|| f(p, st))
}
#[no_mangle]
pub unsafe extern "C" fn stat64(p: *const c_char, st: *mut libc::stat64) -> c_int {
    let f = real_fn!("stat64", unsafe extern "C" fn(*const c_char, *mut libc::stat64) -> c_int);
    path1("stat", libc::AT_FDCWD, p, 0, false, None, false, &|| f(p, st))
}
#[no_mangle]
pub unsafe extern "C" fn lstat(p: *const c_char, st: *mut libc::stat) -> c_int {
    let f = real_fn!("lstat", unsafe extern "C" fn(*const c_char, *mut libc::stat) -> c_int);
    path1("lstat", libc::AT_FDCWD, p, 0, false, None, false, &|| f(p, st))
}
#[no_mangle]
pub unsafe extern "C" fn lstat64(p: *const c_char, st: *mut libc::stat64) -> c_int {
    let f = real_fn!("lstat64", unsafe extern "C" fn(*const c_char, *mut libc::stat64) -> c_int);
    path1("lstat", libc::AT_FDCWD, p, 0, false, None, false, &|| f(p, st))
}
#[no_mangle]
pub unsafe extern "C" fn fstatat(d: c_int, p: *const c_char, st: *mut libc::stat, fl: c_int) -> c_int {
    let f = real_fn!("fstatat", unsafe extern "C" fn(c_int, *const c_char, *mut libc::stat, c_int) -> c_int);
    path1("stat", d, p, fl, false, None, false, &|| f(d, p, st, fl))
}
#[no_mangle]
pub unsafe extern "C" fn fstatat64(d: c_int, p: *const c_char, st: *mut libc::stat64, fl: c_int) -> c_int {
    let f = real_fn!("fstatat64", unsafe extern "C" fn(c_int, *const c_char, *mut libc::stat64, c_int) -> c_int);
    path1("stat", d, p, fl, false, None, false, &|| f(d, p, st, fl))
}
#[no_mangle]
pub unsafe extern "C" fn statx(d: c_int, p: *const c_char, fl: c_int, mask: c_uint, st: *mut libc::statx) -> c_int {
    let f = real_fn!("statx", unsafe extern "C" fn(c_int, *const c_char, c_int, c_uint, *mut libc::statx) -> c_int);
    if !p.is_null() && *p == 0 && fl & libc::AT_EMPTY_PATH != 0 {
        // fstat through statx
        return fd_simple("fstat", d, false, None, &|| f(d, p, fl, mask, st));
    }
    path1("stat", d, p, fl, false, None, false, &|| f(d, p, fl, mask, st))
}
#[no_mangle]
pub unsafe extern "C" fn access(p: *const c_char, mode: c_int) -> c_int {
    let f = real_fn!("access", unsafe extern "C" fn(*const c_char, c_int) -> c_int);
    path1("access", libc::AT_FDCWD, p, mode, false, None, false, &|| f(p, mode))
}
#[no_mangle]
pub unsafe extern "C" fn readlink(p: *const c_char, buf: *mut c_char, n: size_t) -> ssize_t {
    let f = real_fn!("readlink", unsafe extern "C" fn(*const c_char, *mut c_char, size_t) -> ssize_t);
    let (m, full) = match resolve(libc::AT_FDCWD, p) {
        Some(x) => x,
        None => return f(p, buf, n),
    };
    rt::switch_from(m, Why::Fs);
    let rc = f(p, buf, n);
    log("readlink", m, &full, b"", 0, rc as i64, None);
    rc
}
#[no_mangle]
pub unsafe extern "C" fn opendir(p: *const c_char) -> *mut libc::DIR {
    let f = real_fn!("opendir", unsafe extern "C" fn(*const c_char) -> *mut libc::DIR);
    let (m, full) = match resolve(libc::AT_FDCWD, p) {
        Some(x) => x,
        None => return f(p),
    };
    rt::switch_from(m, Why::Fs);
    let d = f(p);
    log("opendir", m, &full, b"", 0, if d.is_null() { -1 } else { 0 }, None);
    d
}
