//! gixsim runtime: a deterministic baton scheduler over real OS threads, with the seam at libc.
//!
//! The harness binary defines `pthread_create`, `pthread_join`, `syscall` (futex, getrandom), `sched_yield`,
//! `nanosleep`, `clock_nanosleep`, `clock_gettime`, `gettimeofday`, `time`, `getrandom` — everything std,
//! parking_lot, crossbeam, dashmap and arc-swap bottom out in when they block, sleep, read a clock or seed a hasher.
//! Exactly one *sim thread* runs at any instant; all choices come from `decide()`, which draws from a seeded PRNG
//! while exploring and from an explicit decision list while replaying.
#![allow(clippy::missing_safety_doc)]

use crate::prng::{Fnv, Rng, STREAM_FAULT, STREAM_GETRANDOM, STREAM_SCHED};
use std::cell::{Cell, UnsafeCell};
use std::collections::BTreeMap;
use std::sync::atomic::{AtomicBool, AtomicI32, AtomicU32, Ordering::SeqCst};

pub const MAX_T: usize = 256;
pub const MONO_BASE_S: u64 = 1_000;
pub const REAL_BASE_S: u64 = 1_700_000_000;
const NS: u64 = 1_000_000_000;

// ---------------------------------------------------------------------------------------------------------------
// decision kinds
pub const K_SCHED: u8 = 1;
pub const K_WAKE: u8 = 2;
pub const K_FAULT: u8 = 3; // generic fault coin / choice (fs errno, short write, io chunking ...)
pub const K_WORK: u8 = 4; // workload-side choice drawn during the run (rare)
pub const K_PREEMPT: u8 = 5; // gap (in executed coverage edges) until the next pre-emption

#[derive(Clone, Copy, PartialEq, Debug)]
pub enum St {
    Free,
    Runnable,
    Futex { addr: usize, deadline: Option<u64>, bitset: u32 },
    Sleep { until: u64 },
    Join { target: usize },
    Exited,
}

#[derive(Clone, Copy, PartialEq, Debug)]
pub enum Why {
    Point,
    Yield,
    Block,
    Spawn,
    Exit,
    Wake,
    Fs,
    Clock,
    Preempt,
}

pub struct Slot {
    pub st: St,
    pub timed_out: bool,
    pub pthread: libc::pthread_t,
    pub prio: i64,
    pub wait_seq: u64,
}

#[derive(Clone, Debug, serde::Serialize, serde::Deserialize, PartialEq)]
pub enum Policy {
    /// stay on the current thread with probability stay/1000 at each point, else uniform over the others
    RandomWalk { stay: u32 },
    /// PCT-lite: random priorities, `depth` priority change points over an estimated run length
    Pct { depth: u32, est_len: u64 },
    /// uniform over runnable threads at every point
    Uniform,
}

#[derive(Clone, Debug, serde::Serialize, serde::Deserialize)]
pub struct Cfg {
    pub seed: u64,
    pub policy: Policy,
    pub max_steps: u64,
    /// permille of labelled hook points enabled in this run (buggify-style subset), with the salt that selects them
    pub point_permille: u32,
    pub point_salt: u64,
    /// explicit decisions (replay / minimisation); None = draw from the PRNG streams of `seed`
    pub replay: Option<Vec<u16>>,
    /// in strict replay a kind mismatch or an exhausted list marks the run as diverged
    pub strict: bool,
    pub trace: bool,
    /// pre-emption between libc calls at instrumented basic-block edges: chance (permille) that another pre-emption
    /// follows the previous one; 0 = never pre-empt
    #[serde(default)]
    pub preempt_more_permille: u32,
    /// gaps between pre-emptions are drawn from 1..=preempt_max_gap executed edges
    #[serde(default)]
    pub preempt_max_gap: u64,
    /// "new code location" pre-emptions are drawn from 1..=preempt_max_distinct further distinct edges
    #[serde(default)]
    pub preempt_max_distinct: u64,
    /// deliver this signal to the thread that reaches scheduling point number `signal_at_step` (a termination signal
    /// landing at that instruction boundary): the real handler chain runs on that thread
    #[serde(default)]
    pub signal_at_step: Option<u64>,
    #[serde(default)]
    pub signal: i32,
    /// or: deliver it after this many instrumented basic-block edges were executed by simulated threads (any
    /// instruction boundary between two libc calls)
    #[serde(default)]
    pub signal_at_edge: Option<u64>,
}

impl Cfg {
    pub fn new(seed: u64) -> Self {
        Cfg { seed, policy: Policy::RandomWalk { stay: 800 }, max_steps: 200_000, point_permille: 1000, point_salt: 0, replay: None, strict: false, trace: false, preempt_more_permille: 0, preempt_max_gap: 1000, preempt_max_distinct: 300, signal_at_step: None, signal: 0, signal_at_edge: None }
    }
}

pub struct Rt {
    pub cfg: Cfg,
    pub slots: Vec<Slot>,
    pub n: usize,
    pub clock: u64,
    pub sched_rng: Rng,
    pub fault_rng: Rng,
    pub rand_rng: Rng,
    pub steps: u64,
    pub switches: u64,
    pub seq: u64,
    pub dec_n: usize,
    pub dec: Vec<u16>,
    pub dec_kind: Vec<u8>,
    pub rp: usize,
    pub diverged: bool,
    pub deadlock: bool,
    pub budget_exceeded: bool,
    pub log_hash: Fnv,
    pub trace: Vec<String>,
    pub probes: BTreeMap<String, u64>,
    pub panics: Vec<String>,
    pub wait_seq: u64,
    pub low_prio: i64,
    pub change_points: Vec<u64>,
    pub root_exited_with_live: usize,
    pub max_live: usize,
    pub faults_fired: BTreeMap<String, u64>,
    pub user: Vec<String>, // scenario history records (written under the baton)
    pub edges: u64,
    pub preemptions: u64,
}

struct Global(UnsafeCell<Option<Rt>>);
unsafe impl Sync for Global {}
static RT: Global = Global(UnsafeCell::new(None));
pub static ACTIVE: AtomicBool = AtomicBool::new(false);
static RUN_PID: AtomicI32 = AtomicI32::new(0);
static BATON: [AtomicU32; MAX_T] = [const { AtomicU32::new(0) }; MAX_T];
static DONE: AtomicU32 = AtomicU32::new(0);
thread_local! {
    static ME: Cell<usize> = const { Cell::new(usize::MAX) };
    static BYPASS: Cell<u32> = const { Cell::new(0) };
}

/// Shared-memory mirror so that the parent still has the decision list when the child dies.
pub struct Shm {
    pub base: *mut u8,
    pub len: usize,
}
unsafe impl Send for Shm {}
unsafe impl Sync for Shm {}
pub const SHM_DEC_CAP: usize = 1 << 19;
pub const SHM_RES_CAP: usize = 8 << 20;
pub const SHM_HDR: usize = 64;
pub const SHM_LEN: usize = SHM_HDR + SHM_DEC_CAP * 2 + SHM_RES_CAP;
static SHM: Global2 = Global2(UnsafeCell::new(None));
struct Global2(UnsafeCell<Option<Shm>>);
unsafe impl Sync for Global2 {}
pub fn set_shm(s: Option<Shm>) {
    unsafe { *SHM.0.get() = s }
}
pub fn shm() -> Option<&'static Shm> {
    unsafe { (*SHM.0.get()).as_ref() }
}
impl Shm {
    pub fn hdr_u64(&self, i: usize) -> *mut u64 {
        unsafe { (self.base as *mut u64).add(i) }
    }
    pub fn dec_ptr(&self) -> *mut u16 {
        unsafe { self.base.add(SHM_HDR) as *mut u16 }
    }
    pub fn res_ptr(&self) -> *mut u8 {
        unsafe { self.base.add(SHM_HDR + SHM_DEC_CAP * 2) }
    }
}
// header words: 0 = n decisions, 1 = result length, 2 = steps, 3 = mutation counter, 4 = phase marker

#[inline]
pub fn me() -> Option<usize> {
    if !ACTIVE.load(SeqCst) {
        return None;
    }
    let m = ME.with(|m| m.get());
    if m == usize::MAX || BYPASS.with(|b| b.get()) > 0 {
        return None;
    }
    if unsafe { libc::getpid() } != RUN_PID.load(SeqCst) {
        return None;
    }
    Some(m)
}
/// Is the calling thread a sim thread (even while bypassed)?
pub fn is_sim_thread() -> bool {
    ACTIVE.load(SeqCst) && ME.with(|m| m.get()) != usize::MAX
}
pub fn my_id() -> usize {
    ME.with(|m| m.get())
}

/// Run `f` with every interposer passing straight through on this thread (harness bookkeeping, snapshots).
pub fn bypass<T>(f: impl FnOnce() -> T) -> T {
    BYPASS.with(|b| b.set(b.get() + 1));
    let r = f();
    BYPASS.with(|b| b.set(b.get() - 1));
    r
}

#[allow(clippy::mut_from_ref)]
pub unsafe fn rt() -> &'static mut Rt {
    (*RT.0.get()).as_mut().expect("rt active")
}
pub fn rt_opt() -> Option<&'static mut Rt> {
    if me().is_some() {
        unsafe { (*RT.0.get()).as_mut() }
    } else {
        None
    }
}

// ---------------------------------------------------------------------------------------------------------------
// real libc access
pub unsafe fn real(name: &[u8]) -> *mut libc::c_void {
    let p = libc::dlsym(libc::RTLD_NEXT, name.as_ptr() as *const libc::c_char);
    if p.is_null() {
        let msg = b"gixsim: dlsym failed\n";
        libc::write(2, msg.as_ptr() as *const _, msg.len());
        libc::_exit(2);
    }
    p
}
#[macro_export]
macro_rules! real_fn {
    ($name:literal, $ty:ty) => {{
        static CACHE: std::sync::atomic::AtomicUsize = std::sync::atomic::AtomicUsize::new(0);
        let mut p = CACHE.load(std::sync::atomic::Ordering::Relaxed);
        if p == 0 {
            p = $crate::rt::real(concat!($name, "\0").as_bytes()) as usize;
            CACHE.store(p, std::sync::atomic::Ordering::Relaxed);
        }
        std::mem::transmute::<usize, $ty>(p)
    }};
}
type SysFn = unsafe extern "C" fn(libc::c_long, usize, usize, usize, usize, usize, usize) -> libc::c_long;
unsafe fn real_syscall() -> SysFn {
    real_fn!("syscall", SysFn)
}
unsafe fn rfutex_wait(w: &AtomicU32, val: u32) {
    real_syscall()(libc::SYS_futex, w as *const _ as usize, libc::FUTEX_WAIT as usize, val as usize, 0, 0, 0);
}
unsafe fn rfutex_wake(w: &AtomicU32) {
    real_syscall()(libc::SYS_futex, w as *const _ as usize, libc::FUTEX_WAKE as usize, i32::MAX as usize, 0, 0, 0);
}

// ---------------------------------------------------------------------------------------------------------------
// decisions, events, probes

/// The single source of run-time choices. `n` options, option 0 is the default ("stay", "no fault", "first").
/// `gen` is only evaluated while exploring.
pub fn decide(kind: u8, n: usize, gen: impl FnOnce(&mut Rt) -> usize) -> usize {
    let r = unsafe { rt() };
    if n <= 1 {
        return 0;
    }
    let c = if let Some(rep) = &r.cfg.replay {
        let c = match rep.get(r.rp) {
            Some(&c) => {
                if r.cfg.strict && (c as usize) >= n {
                    r.diverged = true;
                }
                c as usize % n
            }
            None => {
                // an exhausted list means "defaults from here on" (minimised files are cut short on purpose)
                0
            }
        };
        r.rp += 1;
        c
    } else {
        gen(r).min(n - 1)
    };
    if r.dec_n < SHM_DEC_CAP {
        r.dec.push(c as u16);
        r.dec_kind.push(kind);
        if let Some(s) = shm() {
            unsafe {
                *s.dec_ptr().add(r.dec_n) = c as u16;
                *s.hdr_u64(0) = (r.dec_n + 1) as u64;
            }
        }
    }
    r.dec_n += 1;
    c
}

/// A fault coin: fires with probability permille/1000 while exploring; decision value 1 = fire.
pub fn fault_coin(name: &str, permille: u32) -> bool {
    if me().is_none() || permille == 0 {
        // still consume nothing: a disabled fault kind is not a decision
        return false;
    }
    let c = decide(K_FAULT, 2, |r| r.fault_rng.chance(permille) as usize);
    if c == 1 {
        let r = unsafe { rt() };
        *r.faults_fired.entry(name.to_string()).or_insert(0) += 1;
        event(&format!("fault {name}"));
    }
    c == 1
}
/// A fault-side choice among n options (0 = default), e.g. the length of a short write.
pub fn fault_choice(n: usize) -> usize {
    if me().is_none() {
        return 0;
    }
    decide(K_FAULT, n, |r| r.fault_rng.usize_below(n))
}

pub fn event(s: &str) {
    if let Some(m) = me() {
        let r = unsafe { rt() };
        r.seq += 1;
        r.log_hash.write_u64(m as u64);
        r.log_hash.write(s.as_bytes());
        if r.cfg.trace {
            let line = format!("{:>6} t{} {}", r.seq, m, s);
            r.trace.push(line);
        }
    }
}
/// Global event sequence number (the simulator's total order of events).
pub fn seq() -> u64 {
    if me().is_some() {
        unsafe { rt().seq }
    } else {
        0
    }
}
pub fn bump_seq() -> u64 {
    if me().is_some() {
        let r = unsafe { rt() };
        r.seq += 1;
        r.seq
    } else {
        0
    }
}
pub fn probe(name: &str) {
    if me().is_some() {
        let r = unsafe { rt() };
        *r.probes.entry(name.to_string()).or_insert(0) += 1;
    }
}
pub fn probe_n(name: &str, n: u64) {
    if me().is_some() {
        let r = unsafe { rt() };
        *r.probes.entry(name.to_string()).or_insert(0) += n;
    }
}
/// Append a scenario history record (only the running sim thread can get here, so no lock is needed).
pub fn record(s: String) {
    if me().is_some() {
        let r = unsafe { rt() };
        r.user.push(s);
    }
}
/// Number of sim threads that have not exited (including the caller).
pub fn live_count() -> usize {
    if me().is_some() {
        let r = unsafe { rt() };
        r.slots[..r.n].iter().filter(|s| s.st != St::Exited).count()
    } else {
        0
    }
}
pub fn now_ns() -> u64 {
    if me().is_some() {
        unsafe { rt().clock }
    } else {
        0
    }
}

// ---------------------------------------------------------------------------------------------------------------
// scheduler

unsafe fn promote_due(r: &mut Rt) {
    for s in &mut r.slots[..r.n] {
        match s.st {
            St::Sleep { until } if until <= r.clock => s.st = St::Runnable,
            St::Futex { deadline: Some(d), .. } if d <= r.clock => {
                s.st = St::Runnable;
                s.timed_out = true;
            }
            _ => {}
        }
    }
}

unsafe fn pick(cur: usize, why: Why) -> Option<usize> {
    let r = rt();
    r.steps += 1;
    r.clock += if why == Why::Yield { 50_000 } else { 1_000 };
    if let Some(s) = shm() {
        *s.hdr_u64(2) = r.steps;
    }
    if r.steps > r.cfg.max_steps {
        r.budget_exceeded = true;
        return None;
    }
    if r.cfg.signal_at_step == Some(r.steps) {
        if cur < r.n && why != Why::Exit && r.slots[cur].st == St::Runnable {
            deliver_signal(cur);
        } else {
            // the thread at this point is about to block or exit: the signal lands on whoever runs at the next point
            r.cfg.signal_at_step = Some(r.steps + 1);
        }
    }
    if let Policy::Pct { .. } = r.cfg.policy {
        if r.change_points.contains(&r.steps) && cur < r.n {
            r.low_prio -= 1;
            r.slots[cur].prio = r.low_prio;
        }
        if why == Why::Yield && cur < r.n {
            r.low_prio -= 1;
            r.slots[cur].prio = r.low_prio;
        }
    }
    loop {
        promote_due(r);
        let cur_runnable = cur < r.n && r.slots[cur].st == St::Runnable;
        let mut cands: Vec<usize> = Vec::with_capacity(8);
        // default (index 0) = stay on the current thread, except after a yield or a pre-emption where the default is
        // "someone else"
        let away = why == Why::Yield || why == Why::Preempt;
        if cur_runnable && !away {
            cands.push(cur);
        }
        for i in 0..r.n {
            if i != cur && r.slots[i].st == St::Runnable {
                cands.push(i);
            }
        }
        if cur_runnable && away {
            cands.push(cur);
        }
        if !cands.is_empty() {
            let k = cands.len();
            let stay_first = cur_runnable && !away;
            let c = decide(K_SCHED, k, |r| match r.cfg.policy {
                Policy::Uniform => r.sched_rng.usize_below(k),
                Policy::RandomWalk { stay } => {
                    if stay_first {
                        if r.sched_rng.chance(stay) {
                            0
                        } else {
                            1 + r.sched_rng.usize_below(k - 1)
                        }
                    } else if away && cur_runnable {
                        // prefer anyone but the yielder
                        r.sched_rng.usize_below(k - 1)
                    } else {
                        r.sched_rng.usize_below(k)
                    }
                }
                Policy::Pct { .. } => {
                    let mut best = 0;
                    for (i, &t) in cands.iter().enumerate() {
                        if r.slots[t].prio > r.slots[cands[best]].prio {
                            best = i;
                        }
                    }
                    best
                }
            });
            return Some(cands[c]);
        }
        // nobody runnable: jump the clock to the earliest deadline
        let mut best: Option<u64> = None;
        for s in &r.slots[..r.n] {
            let d = match s.st {
                St::Sleep { until } => Some(until),
                St::Futex { deadline, .. } => deadline,
                _ => None,
            };
            if let Some(d) = d {
                best = Some(best.map_or(d, |b: u64| b.min(d)));
            }
        }
        match best {
            None => return None,
            Some(t) => r.clock = r.clock.max(t),
        }
    }
}

/// Arm the signal to land after `n` more executed edges from here (a scenario aiming at a particular operation).
pub fn arm_signal_after_edges(n: u64) {
    unsafe { SIG_COUNTDOWN = n.max(1) as i64 };
}
static mut SIGNAL_HOOK: Option<fn(usize)> = None;
/// Called (on the signalled thread, before the signal is raised) so that a scenario can journal the instant.
pub fn set_signal_hook(f: Option<fn(usize)>) {
    unsafe { SIGNAL_HOOK = f };
}
/// The signal lands here, on the thread that is running: the real handler chain runs on it, nested in whatever it
/// was doing, and other simulated threads may be scheduled while it runs.
unsafe fn deliver_signal(cur: usize) {
    let r = rt();
    if let Some(s) = shm() {
        *s.hdr_u64(4) = r.steps;
    }
    r.cfg.signal_at_step = None;
    r.cfg.signal_at_edge = None;
    if let Some(h) = SIGNAL_HOOK {
        h(cur);
    }
    let sig = if r.cfg.signal == 0 { libc::SIGTERM } else { r.cfg.signal };
    libc::raise(sig);
}

unsafe fn finish_run() {
    DONE.store(1, SeqCst);
    rfutex_wake(&DONE);
}

pub(crate) unsafe fn switch_from(cur: usize, why: Why) {
    match pick(cur, why) {
        Some(n) if n == cur => {}
        Some(n) => {
            rt().switches += 1;
            BATON[n].store(1, SeqCst);
            rfutex_wake(&BATON[n]);
            wait_baton(cur);
        }
        None => {
            let r = rt();
            if !r.budget_exceeded {
                let all_done = r.slots[..r.n].iter().all(|s| s.st == St::Exited);
                if !all_done {
                    r.deadlock = true;
                }
            }
            finish_run();
            // this thread never runs again; the process exits from the driver thread
            loop {
                wait_baton(cur);
            }
        }
    }
}
unsafe fn wait_baton(cur: usize) {
    while BATON[cur].load(SeqCst) == 0 {
        rfutex_wait(&BATON[cur], 0);
    }
    BATON[cur].store(0, SeqCst);
}

/// Explicit scheduling point (used by the fs layer and by `gix_verif_point`).
pub fn point(why: Why) {
    if let Some(m) = me() {
        unsafe { switch_from(m, why) }
    }
}

fn label_enabled(r: &Rt, label: &[u8]) -> bool {
    if r.cfg.point_permille >= 1000 {
        return true;
    }
    let mut f = Fnv::default();
    f.write_u64(r.cfg.point_salt);
    f.write(label);
    // FNV's low bits are weak for short inputs: fold
    let h = f.0 ^ (f.0 >> 29) ^ (f.0 >> 47);
    (h % 1000) < r.cfg.point_permille as u64
}

/// The one hook the code under test calls (behind `--cfg gix_verif`): a labelled scheduling point.
#[no_mangle]
pub unsafe extern "C" fn gix_verif_point(label: *const u8, len: usize) {
    if let Some(m) = me() {
        let l = std::slice::from_raw_parts(label, len);
        let r = rt();
        let key = std::str::from_utf8_unchecked(l);
        *r.probes.entry(format!("pt:{key}")).or_insert(0) += 1;
        if label_enabled(r, l) {
            event(key);
            switch_from(m, Why::Point);
        }
    }
}

// ---------------------------------------------------------------------------------------------------------------
// pre-emption at instrumented basic-block edges (SanitizerCoverage trace-pc-guard callbacks, see rustc-wrapper.sh)

/// Time slice: a thread that executes this many instrumented edges without reaching any scheduling point is
/// pre-empted anyway (as an OS would), so that spin-waits on a pre-empted peer make progress. Deterministic.
const EDGE_OFF: i64 = 20_000;
static mut EDGE_COUNTDOWN: i64 = EDGE_OFF;
static mut EDGE_BASE: i64 = EDGE_OFF;
static mut SIG_COUNTDOWN: i64 = i64::MAX;
static mut N_GUARDS: u32 = 0;
static mut PLANNED: bool = false;
static mut SEEN: Vec<u64> = Vec::new();
static mut DISTINCT: u64 = 0;
static mut DISTINCT_TARGET: u64 = u64::MAX;

unsafe fn arm_next_preemption(first: bool) {
    let r = rt();
    let more = r.cfg.preempt_more_permille;
    let max_gap = r.cfg.preempt_max_gap.max(1) as i64;
    let max_distinct = r.cfg.preempt_max_distinct.max(1);
    // first decision: 0 = no further pre-emption, 1 = after a number of executed edges ("time"),
    // 2 = at the first visit of the k-th further distinct edge of this run ("new code location");
    // second decision: the number itself
    let c = decide(K_PREEMPT, 3, |r| {
        if !first && !r.sched_rng.chance(more) {
            0
        } else {
            1 + r.sched_rng.usize_below(2)
        }
    });
    DISTINCT_TARGET = u64::MAX;
    let gap = match c {
        0 => EDGE_OFF,
        1 => {
            let n = max_gap.min(60_000) as usize;
            1 + decide(K_PREEMPT, n, |r| r.sched_rng.usize_below(n)) as i64
        }
        _ => {
            let n = max_distinct.min(60_000) as usize;
            DISTINCT_TARGET = DISTINCT + 1 + decide(K_PREEMPT, n, |r| r.sched_rng.usize_below(n)) as u64;
            EDGE_OFF
        }
    };
    EDGE_COUNTDOWN = gap;
    EDGE_BASE = gap;
}

#[no_mangle]
pub unsafe extern "C" fn __sanitizer_cov_trace_pc_guard(_guard: *mut u32) {
    // fast path: not a sim thread
    if ME.with(|m| m.get()) == usize::MAX {
        return;
    }
    let id = *_guard as usize;
    if id != 0 && (id >> 6) < SEEN.len() {
        let (w, b) = (id >> 6, 1u64 << (id & 63));
        if SEEN[w] & b == 0 {
            SEEN[w] |= b;
            DISTINCT += 1;
            if DISTINCT >= DISTINCT_TARGET && BYPASS.with(|b| b.get()) == 0 {
                DISTINCT_TARGET = u64::MAX;
                // behave like an expired planned gap
                EDGE_BASE = EDGE_BASE - EDGE_COUNTDOWN + 1;
                EDGE_COUNTDOWN = 1;
                PLANNED = true;
            }
        }
    }
    SIG_COUNTDOWN -= 1;
    if SIG_COUNTDOWN == 0 {
        match me() {
            Some(m) => deliver_signal(m),
            None => SIG_COUNTDOWN = 1,
        }
    }
    EDGE_COUNTDOWN -= 1;
    if EDGE_COUNTDOWN > 0 {
        return;
    }
    if let Some(m) = me() {
        let r = rt();
        r.edges += (EDGE_BASE - EDGE_COUNTDOWN) as u64;
        let slice_expired = EDGE_BASE == EDGE_OFF && !PLANNED;
        PLANNED = false;
        EDGE_COUNTDOWN = EDGE_OFF; // (re-armed below / by the next thread's own expiry)
        EDGE_BASE = EDGE_OFF;
        if slice_expired {
            // not a planned pre-emption: the thread used up its time slice (typically a spin-wait)
            *r.probes.entry("time-slice-expired".to_string()).or_insert(0) += 1;
            event("timeslice");
            switch_from(m, Why::Yield);
            EDGE_COUNTDOWN = EDGE_OFF;
            EDGE_BASE = EDGE_OFF;
        } else {
            r.preemptions += 1;
            event("preempt");
            // plan the next pre-emption now: it applies to whichever thread runs next
            arm_next_preemption(false);
            switch_from(m, Why::Preempt);
        }
    } else {
        // bypassed section: try again a little later
        EDGE_COUNTDOWN = 50;
    }
}
#[no_mangle]
pub unsafe extern "C" fn __sanitizer_cov_trace_pc_guard_init(start: *mut u32, stop: *mut u32) {
    // number the static edges 1..N (same binary => same numbering)
    let mut p = start;
    while p < stop {
        if *p == 0 {
            N_GUARDS += 1;
            *p = N_GUARDS;
        }
        p = p.add(1);
    }
}

// ---------------------------------------------------------------------------------------------------------------
// threads

struct Tramp {
    start: extern "C" fn(*mut libc::c_void) -> *mut libc::c_void,
    arg: *mut libc::c_void,
    id: usize,
}
extern "C" fn trampoline(p: *mut libc::c_void) -> *mut libc::c_void {
    unsafe {
        let t = Box::from_raw(p as *mut Tramp);
        ME.with(|m| m.set(t.id));
        wait_baton(t.id);
        if t.id == 0 && rt().cfg.preempt_more_permille > 0 {
            arm_next_preemption(true);
        }
        if t.id == 0 {
            // debugging aid: force one pre-emption at the n-th distinct edge
            if let Some(n) = std::env::var("GIXSIM_FORCE_DISTINCT").ok().and_then(|v| v.parse::<u64>().ok()) {
                DISTINCT_TARGET = n;
            }
        }
        let ret = (t.start)(t.arg);
        // still holding the baton
        BYPASS.with(|b| b.set(0));
        let r = rt();
        event("thread-exit");
        r.slots[t.id].st = St::Exited;
        for s in &mut r.slots[..r.n] {
            if s.st == (St::Join { target: t.id }) {
                s.st = St::Runnable;
            }
        }
        if t.id == 0 {
            r.root_exited_with_live = r.slots[..r.n].iter().filter(|s| s.st != St::Exited).count();
        }
        let id = t.id;
        drop(t);
        ME.with(|m| m.set(usize::MAX));
        // hand the baton on without waiting for it again
        match pick(id, Why::Exit) {
            Some(n) => {
                BATON[n].store(1, SeqCst);
                rfutex_wake(&BATON[n]);
            }
            None => {
                let r = rt();
                if !r.budget_exceeded && !r.slots[..r.n].iter().all(|s| s.st == St::Exited) {
                    r.deadlock = true;
                }
                finish_run();
            }
        }
        ret
    }
}
type PtcFn = unsafe extern "C" fn(
    *mut libc::pthread_t,
    *const libc::pthread_attr_t,
    extern "C" fn(*mut libc::c_void) -> *mut libc::c_void,
    *mut libc::c_void,
) -> libc::c_int;
unsafe fn spawn_sim(
    t: *mut libc::pthread_t,
    attr: *const libc::pthread_attr_t,
    start: extern "C" fn(*mut libc::c_void) -> *mut libc::c_void,
    arg: *mut libc::c_void,
) -> libc::c_int {
    let r = rt();
    let id = r.n;
    if id >= MAX_T {
        harness_abort("too many sim threads");
    }
    r.n += 1;
    r.slots[id].st = St::Runnable;
    r.slots[id].prio = (r.sched_rng.next_u64() >> 2) as i64;
    BATON[id].store(0, SeqCst);
    let live = r.slots[..r.n].iter().filter(|s| s.st != St::Exited).count();
    r.max_live = r.max_live.max(live);
    let f: PtcFn = real_fn!("pthread_create", PtcFn);
    let b = Box::into_raw(Box::new(Tramp { start, arg, id }));
    let rc = f(t, attr, trampoline, b as *mut _);
    if rc != 0 {
        drop(Box::from_raw(b));
        r.n -= 1;
        r.slots[id].st = St::Free;
        return rc;
    }
    r.slots[id].pthread = *t;
    rc
}
#[no_mangle]
pub unsafe extern "C" fn pthread_create(
    t: *mut libc::pthread_t,
    attr: *const libc::pthread_attr_t,
    start: extern "C" fn(*mut libc::c_void) -> *mut libc::c_void,
    arg: *mut libc::c_void,
) -> libc::c_int {
    if let Some(m) = me() {
        let rc = spawn_sim(t, attr, start, arg);
        event("thread-spawn");
        switch_from(m, Why::Spawn);
        rc
    } else {
        let f: PtcFn = real_fn!("pthread_create", PtcFn);
        f(t, attr, start, arg)
    }
}
#[no_mangle]
pub unsafe extern "C" fn pthread_join(t: libc::pthread_t, ret: *mut *mut libc::c_void) -> libc::c_int {
    if let Some(m) = me() {
        let r = rt();
        // glibc reuses pthread_t values: the newest slot with this handle is the live one
        if let Some(target) = (0..r.n).rev().find(|&i| r.slots[i].pthread == t) {
            if r.slots[target].st != St::Exited {
                r.slots[m].st = St::Join { target };
                switch_from(m, Why::Block);
            }
        }
    }
    let f: unsafe extern "C" fn(libc::pthread_t, *mut *mut libc::c_void) -> libc::c_int =
        real_fn!("pthread_join", unsafe extern "C" fn(libc::pthread_t, *mut *mut libc::c_void) -> libc::c_int);
    f(t, ret)
}

#[no_mangle]
pub unsafe extern "C" fn sched_yield() -> libc::c_int {
    if let Some(m) = me() {
        switch_from(m, Why::Yield);
    }
    0
}

// ---------------------------------------------------------------------------------------------------------------
// time

unsafe fn sim_sleep(m: usize, ns: u64) {
    let r = rt();
    event("sleep");
    r.slots[m].st = St::Sleep { until: r.clock.saturating_add(ns) };
    switch_from(m, Why::Block);
}
fn ts_ns(a: *const libc::timespec) -> u64 {
    unsafe { ((*a).tv_sec.max(0) as u64).saturating_mul(NS).saturating_add((*a).tv_nsec.max(0) as u64) }
}
fn clock_base(id: libc::clockid_t) -> Option<u64> {
    match id {
        libc::CLOCK_REALTIME | libc::CLOCK_REALTIME_COARSE | libc::CLOCK_TAI => Some(REAL_BASE_S),
        libc::CLOCK_MONOTONIC | libc::CLOCK_MONOTONIC_COARSE | libc::CLOCK_MONOTONIC_RAW | libc::CLOCK_BOOTTIME => Some(MONO_BASE_S),
        _ => None,
    }
}
#[no_mangle]
pub unsafe extern "C" fn nanosleep(a: *const libc::timespec, b: *mut libc::timespec) -> libc::c_int {
    if let Some(m) = me() {
        sim_sleep(m, ts_ns(a));
        return 0;
    }
    let f = real_fn!("nanosleep", unsafe extern "C" fn(*const libc::timespec, *mut libc::timespec) -> libc::c_int);
    f(a, b)
}
#[no_mangle]
pub unsafe extern "C" fn clock_nanosleep(c: libc::clockid_t, fl: libc::c_int, a: *const libc::timespec, b: *mut libc::timespec) -> libc::c_int {
    if let Some(m) = me() {
        let ns = ts_ns(a);
        let r = rt();
        let d = if fl & libc::TIMER_ABSTIME != 0 {
            let base = clock_base(c).unwrap_or(MONO_BASE_S);
            ns.saturating_sub(base * NS).saturating_sub(r.clock)
        } else {
            ns
        };
        sim_sleep(m, d);
        return 0;
    }
    let f = real_fn!("clock_nanosleep", unsafe extern "C" fn(libc::clockid_t, libc::c_int, *const libc::timespec, *mut libc::timespec) -> libc::c_int);
    f(c, fl, a, b)
}
#[no_mangle]
pub unsafe extern "C" fn usleep(us: libc::c_uint) -> libc::c_int {
    if let Some(m) = me() {
        sim_sleep(m, us as u64 * 1000);
        return 0;
    }
    let f = real_fn!("usleep", unsafe extern "C" fn(libc::c_uint) -> libc::c_int);
    f(us)
}
#[no_mangle]
pub unsafe extern "C" fn clock_gettime(id: libc::clockid_t, ts: *mut libc::timespec) -> libc::c_int {
    if me().is_some() {
        if let Some(base) = clock_base(id) {
            let r = rt();
            r.clock += 1_000;
            (*ts).tv_sec = (base + r.clock / NS) as i64;
            (*ts).tv_nsec = (r.clock % NS) as i64;
            return 0;
        }
    }
    let f = real_fn!("clock_gettime", unsafe extern "C" fn(libc::clockid_t, *mut libc::timespec) -> libc::c_int);
    f(id, ts)
}
#[no_mangle]
pub unsafe extern "C" fn gettimeofday(tv: *mut libc::timeval, tz: *mut libc::c_void) -> libc::c_int {
    if me().is_some() && !tv.is_null() {
        let r = rt();
        r.clock += 1_000;
        (*tv).tv_sec = (REAL_BASE_S + r.clock / NS) as i64;
        (*tv).tv_usec = ((r.clock % NS) / 1000) as i64;
        return 0;
    }
    let f = real_fn!("gettimeofday", unsafe extern "C" fn(*mut libc::timeval, *mut libc::c_void) -> libc::c_int);
    f(tv, tz)
}
#[no_mangle]
pub unsafe extern "C" fn time(t: *mut libc::time_t) -> libc::time_t {
    if me().is_some() {
        let r = rt();
        let v = (REAL_BASE_S + r.clock / NS) as libc::time_t;
        if !t.is_null() {
            *t = v;
        }
        return v;
    }
    let f = real_fn!("time", unsafe extern "C" fn(*mut libc::time_t) -> libc::time_t);
    f(t)
}
/// Current simulated wall clock as (sec, nsec) for file timestamps.
pub fn sim_realtime() -> (i64, i64) {
    let r = unsafe { rt() };
    ((REAL_BASE_S + r.clock / NS) as i64, (r.clock % NS) as i64)
}
pub fn advance_clock(ns: u64) {
    if me().is_some() {
        unsafe { rt().clock += ns }
    }
}

/// The code under test asks for the number of usable CPUs through the affinity mask; workers are pinned to one CPU,
/// so sim threads are told a fixed 8 (deterministic across hosts).
#[no_mangle]
pub unsafe extern "C" fn sched_getaffinity(pid: libc::pid_t, size: libc::size_t, set: *mut libc::cpu_set_t) -> libc::c_int {
    if is_sim_thread() && !set.is_null() && size >= 8 {
        std::ptr::write_bytes(set as *mut u8, 0, size);
        *(set as *mut u8) = 0xff;
        return 0;
    }
    if PRESIM_RNG.is_some() && !set.is_null() && size >= 8 {
        // seeded set-up phase: the machine size is part of the seed too (it sizes sharded maps)
        std::ptr::write_bytes(set as *mut u8, 0, size);
        *(set as *mut u8) = PRESIM_CPUS;
        return 0;
    }
    let f = real_fn!("sched_getaffinity", unsafe extern "C" fn(libc::pid_t, libc::size_t, *mut libc::cpu_set_t) -> libc::c_int);
    f(pid, size, set)
}

// ---------------------------------------------------------------------------------------------------------------
// randomness

#[no_mangle]
pub unsafe extern "C" fn getrandom(buf: *mut libc::c_void, len: libc::size_t, flags: libc::c_uint) -> libc::ssize_t {
    if me().is_some() {
        let r = rt();
        r.rand_rng.fill(std::slice::from_raw_parts_mut(buf as *mut u8, len));
        return len as libc::ssize_t;
    }
    if let Some(g) = PRESIM_RNG.as_mut() {
        g.fill(std::slice::from_raw_parts_mut(buf as *mut u8, len));
        return len as libc::ssize_t;
    }
    let f = real_fn!("getrandom", unsafe extern "C" fn(*mut libc::c_void, libc::size_t, libc::c_uint) -> libc::ssize_t);
    f(buf, len, flags)
}
static mut PRESIM_RNG: Option<crate::prng::Rng> = None;
/// Make `getrandom` deterministic also outside a simulation (set-up code whose hash seeds matter, e.g. a registry
/// created before the run starts). Single-threaded use only.
pub fn set_presim_random(seed: Option<u64>) {
    unsafe {
        PRESIM_RNG = seed.map(|s| crate::prng::Rng::stream(s, 77));
        if let Some(s) = seed {
            PRESIM_CPUS = [0x01u8, 0x01, 0x01, 0x03, 0xff][(crate::prng::Rng::stream(s, 78).next_u64() % 5) as usize];
        }
    }
}
static mut PRESIM_CPUS: u8 = 0xff;

// ---------------------------------------------------------------------------------------------------------------
// futex emulation (+ getrandom via syscall)

#[no_mangle]
pub unsafe extern "C" fn syscall(num: libc::c_long, a1: usize, a2: usize, a3: usize, a4: usize, a5: usize, a6: usize) -> libc::c_long {
    if num == libc::SYS_futex {
        if let Some(m) = me() {
            let op = (a2 as i32) & libc::FUTEX_CMD_MASK;
            let realtime = (a2 as i32) & libc::FUTEX_CLOCK_REALTIME != 0;
            let r = rt();
            match op {
                libc::FUTEX_WAIT | libc::FUTEX_WAIT_BITSET => {
                    let w = &*(a1 as *const AtomicU32);
                    if w.load(SeqCst) != a3 as u32 {
                        *libc::__errno_location() = libc::EAGAIN;
                        return -1;
                    }
                    let ts = a4 as *const libc::timespec;
                    let deadline = if ts.is_null() {
                        None
                    } else {
                        let ns = ts_ns(ts);
                        Some(if op == libc::FUTEX_WAIT {
                            r.clock.saturating_add(ns)
                        } else {
                            let base = if realtime { REAL_BASE_S } else { MONO_BASE_S };
                            ns.saturating_sub(base * NS).max(r.clock)
                        })
                    };
                    let bitset = if op == libc::FUTEX_WAIT_BITSET { a6 as u32 } else { u32::MAX };
                    r.wait_seq += 1;
                    r.slots[m].wait_seq = r.wait_seq;
                    r.slots[m].st = St::Futex { addr: a1, deadline, bitset };
                    r.slots[m].timed_out = false;
                    event("futex-wait");
                    switch_from(m, Why::Block);
                    if rt().slots[m].timed_out {
                        *libc::__errno_location() = libc::ETIMEDOUT;
                        return -1;
                    }
                    return 0;
                }
                libc::FUTEX_WAKE | libc::FUTEX_WAKE_BITSET => {
                    let max = (a3 as i32).max(0) as usize;
                    let bitset = if op == libc::FUTEX_WAKE_BITSET { a6 as u32 } else { u32::MAX };
                    let mut waiters: Vec<usize> = (0..r.n)
                        .filter(|&i| matches!(r.slots[i].st, St::Futex { addr, bitset: b, .. } if addr == a1 && (b & bitset) != 0))
                        .collect();
                    waiters.sort_by_key(|&i| r.slots[i].wait_seq);
                    let mut woken = 0usize;
                    while woken < max && !waiters.is_empty() {
                        let k = waiters.len();
                        // which waiter wakes is a decision only when not all of them are woken
                        let c = if max >= k { 0 } else { decide(K_WAKE, k, |r| r.sched_rng.usize_below(k)) };
                        let t = waiters.remove(c);
                        rt().slots[t].st = St::Runnable;
                        woken += 1;
                    }
                    if woken < max {
                        // nobody (else) in the simulation waits here; a non-sim waiter cannot exist, but stay faithful
                        real_syscall()(num, a1, a2, a3, a4, a5, a6);
                    }
                    event("futex-wake");
                    switch_from(m, Why::Wake);
                    return woken as libc::c_long;
                }
                _ => {
                    harness_abort("unmodelled futex operation from a sim thread");
                }
            }
        }
    } else if num == libc::SYS_getrandom && me().is_some() {
        let r = rt();
        r.rand_rng.fill(std::slice::from_raw_parts_mut(a1 as *mut u8, a2));
        return a2 as libc::c_long;
    } else if num == libc::SYS_getrandom {
        if let Some(g) = PRESIM_RNG.as_mut() {
            g.fill(std::slice::from_raw_parts_mut(a1 as *mut u8, a2));
            return a2 as libc::c_long;
        }
    }
    real_syscall()(num, a1, a2, a3, a4, a5, a6)
}

pub fn harness_abort(msg: &str) -> ! {
    unsafe {
        let m = format!("gixsim: HARNESS ERROR: {msg}\n");
        libc::write(2, m.as_ptr() as *const _, m.len());
        if let Some(s) = shm() {
            let b = format!("{{\"status\":\"harness_error\",\"detail\":{:?}}}", msg);
            let n = b.len().min(SHM_RES_CAP);
            std::ptr::copy_nonoverlapping(b.as_ptr(), s.res_ptr(), n);
            *s.hdr_u64(1) = n as u64;
        }
        libc::_exit(2)
    }
}

// ---------------------------------------------------------------------------------------------------------------
// running one simulation

#[derive(Debug, Clone, Default)]
pub struct Outcome {
    pub decisions: Vec<u16>,
    pub steps: u64,
    pub switches: u64,
    pub deadlock: bool,
    pub budget_exceeded: bool,
    pub diverged: bool,
    pub clock_ns: u64,
    pub threads: usize,
    pub max_live: usize,
    pub leaked_at_root_exit: usize,
    pub blocked: Vec<String>,
    pub log_hash: u64,
    pub sched_hash: u64,
    pub trace: Vec<String>,
    pub probes: BTreeMap<String, u64>,
    pub faults_fired: BTreeMap<String, u64>,
    pub panics: Vec<String>,
    pub root_panicked: bool,
    pub user: Vec<String>,
    pub preemptions: u64,
    pub edges: u64,
    pub distinct_edges: u64,
}

static ROOT_PANICKED: AtomicBool = AtomicBool::new(false);

pub fn install_panic_hook() {
    std::panic::set_hook(Box::new(|info| {
        let msg = if let Some(s) = info.payload().downcast_ref::<&str>() {
            (*s).to_string()
        } else if let Some(s) = info.payload().downcast_ref::<String>() {
            s.clone()
        } else {
            "<non-string panic>".to_string()
        };
        let loc = info.location().map(|l| format!("{}:{}", l.file(), l.line())).unwrap_or_default();
        let line = format!("{msg} @ {loc}");
        if crate::io::capture_panic_message(&line) {
            return;
        }
        if is_sim_thread() {
            // the panicking thread holds the baton
            unsafe {
                if let Some(r) = (*RT.0.get()).as_mut() {
                    r.panics.push(line);
                    return;
                }
            }
        }
        eprintln!("gixsim: panic outside simulation: {line}");
    }));
}

/// Run `f` as sim thread 0 and schedule everything it spawns until all threads exit, deadlock, or the budget ends.
pub fn run(cfg: Cfg, f: impl FnOnce() + Send + 'static) -> Outcome {
    unsafe {
        let mut sched_rng = Rng::stream(cfg.seed, STREAM_SCHED);
        let mut change_points = vec![];
        if let Policy::Pct { depth, est_len } = cfg.policy {
            for _ in 0..depth {
                change_points.push(1 + sched_rng.below(est_len.max(1)));
            }
        }
        *RT.0.get() = Some(Rt {
            slots: (0..MAX_T).map(|_| Slot { st: St::Free, timed_out: false, pthread: 0, prio: 0, wait_seq: 0 }).collect(),
            n: 0,
            clock: 0,
            sched_rng,
            fault_rng: Rng::stream(cfg.seed, STREAM_FAULT),
            rand_rng: Rng::stream(cfg.seed, STREAM_GETRANDOM),
            steps: 0,
            switches: 0,
            seq: 0,
            dec_n: 0,
            dec: Vec::with_capacity(1024),
            dec_kind: Vec::with_capacity(1024),
            rp: 0,
            diverged: false,
            deadlock: false,
            budget_exceeded: false,
            log_hash: Fnv::default(),
            trace: vec![],
            probes: BTreeMap::new(),
            panics: vec![],
            wait_seq: 0,
            low_prio: 0,
            change_points,
            root_exited_with_live: 0,
            max_live: 0,
            faults_fired: BTreeMap::new(),
            user: vec![],
            edges: 0,
            preemptions: 0,
            cfg,
        });
        EDGE_COUNTDOWN = EDGE_OFF;
        EDGE_BASE = EDGE_OFF;
        SIG_COUNTDOWN = rt().cfg.signal_at_edge.map_or(i64::MAX, |e| e.max(1) as i64);
        SEEN = vec![0u64; (N_GUARDS as usize >> 6) + 2];
        DISTINCT = 0;
        DISTINCT_TARGET = u64::MAX;
        PLANNED = false;
        DONE.store(0, SeqCst);
        ROOT_PANICKED.store(false, SeqCst);
        RUN_PID.store(libc::getpid(), SeqCst);
        extern "C" fn root(p: *mut libc::c_void) -> *mut libc::c_void {
            let f = unsafe { Box::from_raw(p as *mut Box<dyn FnOnce() + Send>) };
            if std::panic::catch_unwind(std::panic::AssertUnwindSafe(move || f())).is_err() {
                ROOT_PANICKED.store(true, SeqCst);
            }
            std::ptr::null_mut()
        }
        let b: Box<Box<dyn FnOnce() + Send>> = Box::new(Box::new(f));
        ACTIVE.store(true, SeqCst);
        let mut t: libc::pthread_t = 0;
        let rc = spawn_sim(&mut t, std::ptr::null(), root, Box::into_raw(b) as *mut _);
        if rc != 0 {
            harness_abort("cannot create the root sim thread");
        }
        BATON[0].store(1, SeqCst);
        rfutex_wake(&BATON[0]);
        while DONE.load(SeqCst) == 0 {
            rfutex_wait(&DONE, 0);
        }
        ACTIVE.store(false, SeqCst);
        let r = (*RT.0.get()).take().unwrap();
        let clean = !r.deadlock && !r.budget_exceeded;
        if clean {
            // every sim thread has left its start routine; reap the root (others were joined or detached by their owners)
            let f = real_fn!("pthread_join", unsafe extern "C" fn(libc::pthread_t, *mut *mut libc::c_void) -> libc::c_int);
            f(t, std::ptr::null_mut());
        }
        let mut sh = Fnv::default();
        for (d, k) in r.dec.iter().zip(r.dec_kind.iter()) {
            if *k == K_SCHED || *k == K_WAKE {
                sh.write(&d.to_le_bytes());
            }
        }
        let blocked = r.slots[..r.n]
            .iter()
            .enumerate()
            .filter(|(_, s)| s.st != St::Exited)
            .map(|(i, s)| format!("t{i}:{}", match s.st { St::Futex { .. } => "futex", St::Sleep { .. } => "sleep", St::Join { .. } => "join", St::Runnable => "runnable", _ => "?" }))
            .collect();
        Outcome {
            decisions: r.dec,
            steps: r.steps,
            switches: r.switches,
            deadlock: r.deadlock,
            budget_exceeded: r.budget_exceeded,
            diverged: r.diverged,
            clock_ns: r.clock,
            threads: r.n,
            max_live: r.max_live,
            leaked_at_root_exit: r.root_exited_with_live,
            blocked,
            log_hash: r.log_hash.0,
            sched_hash: sh.0,
            trace: r.trace,
            probes: r.probes,
            faults_fired: r.faults_fired,
            panics: r.panics,
            root_panicked: ROOT_PANICKED.load(SeqCst),
            user: r.user,
            preemptions: r.preemptions,
            edges: r.edges + (EDGE_BASE - EDGE_COUNTDOWN).max(0) as u64,
            distinct_edges: DISTINCT,
        }
    }
}
