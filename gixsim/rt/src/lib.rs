//! gixsim-rt: the simulator itself (runtime, disk layer, stream wrappers, driver). Kept in its own crate so that the
//! scenario crate — where the generic code of gitoxide gets instantiated — can be compiled with coverage-edge callbacks
//! (pre-emption opportunities) while the scheduler's own code is not.
#![allow(dead_code)]
pub mod cli;
pub mod driver;
pub mod fsx;
pub mod io;
pub mod prng;
pub mod rt;
