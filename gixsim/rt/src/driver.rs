//! Batch driver: worker processes, fork-per-run children, result collection over shared memory, replay,
//! minimisation, known findings, evidence.

use crate::prng::{Fnv, Rng};
use crate::rt::{self, Shm, SHM_LEN, SHM_RES_CAP};
use serde::{Deserialize, Serialize};
use serde_json::{json, Value};
use std::collections::{BTreeMap, BTreeSet};
use std::path::{Path, PathBuf};
use std::time::Instant;

#[derive(Clone, Copy, PartialEq, Eq, Debug, Serialize, Deserialize)]
pub enum Tier {
    Quick,
    Thorough,
}
impl Tier {
    pub fn name(self) -> &'static str {
        match self {
            Tier::Quick => "quick",
            Tier::Thorough => "thorough",
        }
    }
}

#[derive(Clone, Debug, Serialize, Deserialize)]
pub struct Violation {
    pub property: String,
    /// stable identity: scenario, oracle clause, operation shape / hook label — never seeds, addresses or counters
    pub sig: String,
    pub detail: String,
}

#[derive(Clone, Debug, Default, Serialize, Deserialize)]
pub struct Report {
    pub violations: Vec<Violation>,
    pub harness_error: Option<String>,
    pub steps: u64,
    pub switches: u64,
    pub sim_ns: u64,
    pub n_decisions: u64,
    pub sched_hash: u64,
    pub log_hash: u64,
    pub threads: u64,
    pub crash_points: u64,
    pub faults: BTreeMap<String, u64>,
    pub probes: BTreeMap<String, u64>,
    /// scenario-defined abstract state hashes reached in this run
    pub states: Vec<u64>,
    pub nontrivial: bool,
    pub ops: u64,
    pub trace: Vec<String>,
    pub summary: String,
    #[serde(default)]
    pub decisions: Vec<u16>,
}
impl Report {
    pub fn absorb_outcome(&mut self, o: &rt::Outcome) {
        self.steps += o.steps;
        self.switches += o.switches;
        self.sim_ns += o.clock_ns;
        self.n_decisions += o.decisions.len() as u64;
        self.sched_hash ^= o.sched_hash;
        self.log_hash ^= o.log_hash;
        self.threads = self.threads.max(o.threads as u64);
        for (k, v) in &o.faults_fired {
            *self.faults.entry(k.clone()).or_insert(0) += v;
        }
        for (k, v) in &o.probes {
            *self.probes.entry(k.clone()).or_insert(0) += v;
        }
        if o.switches >= 2 || !o.faults_fired.is_empty() {
            self.nontrivial = true;
        }
        *self.probes.entry("instrumented-edges-executed".into()).or_insert(0) += o.edges;
        *self.probes.entry("distinct-edges-per-run-sum".into()).or_insert(0) += o.distinct_edges;
        if o.preemptions > 0 {
            *self.probes.entry("preemptions-at-basic-block-edges".into()).or_insert(0) += o.preemptions;
        }
        if !o.trace.is_empty() {
            self.trace.extend(o.trace.iter().cloned());
        }
        if o.diverged {
            self.harness_error = Some("strict replay diverged from the recorded decision list".into());
        }
    }
    pub fn violate(&mut self, property: &str, sig: impl Into<String>, detail: impl Into<String>) {
        self.violations.push(Violation { property: property.into(), sig: sig.into(), detail: detail.into() });
    }
    pub fn probe(&mut self, k: &str) {
        *self.probes.entry(k.to_string()).or_insert(0) += 1;
    }
    pub fn fault(&mut self, k: &str) {
        *self.faults.entry(k.to_string()).or_insert(0) += 1;
        self.nontrivial = true;
    }
}

pub struct ExecCtx {
    pub seed: u64,
    pub tier: Tier,
    pub sandbox: PathBuf,
    pub replay: Option<Vec<u16>>,
    pub strict: bool,
    pub trace: bool,
    /// check only this property's oracles where a scenario serves several
    pub property: String,
    /// per-worker directory prepared once by `Scenario::worker_init` (fixture pools, templates)
    pub worker_dir: PathBuf,
}
impl ExecCtx {
    pub fn rt_cfg(&self) -> rt::Cfg {
        let mut c = rt::Cfg::new(self.seed);
        c.replay = self.replay.clone();
        c.strict = self.strict;
        c.trace = self.trace;
        c
    }
}

pub trait Scenario: Sync {
    fn name(&self) -> &'static str;
    fn properties(&self) -> &'static [&'static str];
    /// fork one child per run (needed whenever the runtime, the disk or signals are involved)
    fn isolated(&self) -> bool {
        true
    }
    fn runs(&self, tier: Tier, property: &str) -> u64;
    /// Explicit workload for a seed (operation list and resolved swarm configuration — not a generator seed).
    fn generate(&self, seed: u64, tier: Tier, property: &str) -> Value;
    fn execute(&self, workload: &Value, ctx: &ExecCtx) -> Report;
    /// Smaller workloads to try while minimising.
    fn shrink(&self, _workload: &Value) -> Vec<Value> {
        vec![]
    }
    /// The child died (signal or exit code) without a report: is that a violation of a property?
    fn classify_death(&self, _how: &str, _workload: &Value, _property: &str) -> Option<Violation> {
        None
    }
    /// The child died on purpose (crash/signal scenarios): examine what it left in `sandbox` and produce the report.
    fn examine_death(&self, _how: &str, _workload: &Value, _sandbox: &Path, _property: &str, _steps_at_death: u64) -> Option<Report> {
        None
    }
    fn cpu_limit_s(&self, _property: &str) -> u64 {
        60
    }
    /// Build per-worker fixtures (templates, pools made by git) once, outside any simulation.
    fn worker_init(&self, _dir: &Path, _tier: Tier) {}
    /// Worker processes worth using. Process and thread creation is serialised globally on this VM (measured:
    /// 16 parallel forkers are 20x slower each), so light, creation-dominated scenarios run best with few workers.
    fn jobs_hint(&self) -> usize {
        4
    }
    fn real_stub(&self) -> Value {
        json!({})
    }
    fn level(&self, _property: &str) -> &'static str {
        "exploration"
    }
    fn rule(&self, _property: &str) -> String {
        "distinct (workload hash, schedule hash, fault set) among runs with >=2 context switches or >=1 fired fault".into()
    }
    fn assumptions(&self, _property: &str) -> Vec<String> {
        vec![]
    }
}

// ---------------------------------------------------------------------------------------------------------------
// shared memory + children

pub fn new_shm() -> Shm {
    unsafe {
        let p = libc::mmap(std::ptr::null_mut(), SHM_LEN, libc::PROT_READ | libc::PROT_WRITE, libc::MAP_SHARED | libc::MAP_ANONYMOUS, -1, 0);
        assert!(p != libc::MAP_FAILED, "mmap shared");
        Shm { base: p as *mut u8, len: SHM_LEN }
    }
}
fn shm_reset(s: &Shm) {
    unsafe {
        for i in 0..8 {
            *s.hdr_u64(i) = 0;
        }
    }
}
fn shm_write_result(s: &Shm, bytes: &[u8]) {
    unsafe {
        let n = bytes.len().min(SHM_RES_CAP);
        std::ptr::copy_nonoverlapping(bytes.as_ptr(), s.res_ptr(), n);
        std::sync::atomic::fence(std::sync::atomic::Ordering::SeqCst);
        *s.hdr_u64(1) = n as u64;
    }
}
fn shm_read_result(s: &Shm) -> Option<Vec<u8>> {
    unsafe {
        let n = *s.hdr_u64(1) as usize;
        if n == 0 {
            return None;
        }
        Some(std::slice::from_raw_parts(s.res_ptr(), n).to_vec())
    }
}
fn shm_decisions(s: &Shm) -> Vec<u16> {
    unsafe {
        let n = (*s.hdr_u64(0) as usize).min(rt::SHM_DEC_CAP);
        std::slice::from_raw_parts(s.dec_ptr(), n).to_vec()
    }
}

/// Called by the fs layer in kill mode: the process dies here, before the mutation is performed.
pub fn child_exit_killed(k: u64, label: &str) -> ! {
    if let Some(s) = rt::shm() {
        let b = serde_json::to_vec(&json!({"status": "killed", "k": k, "label": label})).unwrap();
        shm_write_result(s, &b);
    }
    unsafe { libc::_exit(0) }
}

/// Scratch space of this invocation. The last component is a random token chosen once by the top-level process
/// (inherited by everything it forks or re-executes): run directories are named after process ids, and another
/// invocation on the same machine — possibly in another pid namespace that shares /dev/shm — must never meet them.
pub fn sandbox_base() -> PathBuf {
    static BASE: std::sync::OnceLock<PathBuf> = std::sync::OnceLock::new();
    BASE.get_or_init(|| {
        let token = std::env::var("GIXSIM_SANDBOX_TOKEN").ok().filter(|t| !t.is_empty()).unwrap_or_else(|| {
            let mut b = [0u8; 8];
            let _ = std::fs::File::open("/dev/urandom").and_then(|mut f| std::io::Read::read_exact(&mut f, &mut b));
            let t: String = b.iter().map(|x| format!("{x:02x}")).collect();
            std::env::set_var("GIXSIM_SANDBOX_TOKEN", &t);
            t
        });
        PathBuf::from("/dev/shm/gixsim").join(token)
    })
    .clone()
}
/// Remove this invocation's scratch space (top-level process, at exit).
pub fn remove_sandbox_base() {
    let _ = std::fs::remove_dir_all(sandbox_base());
}

/// The calling process's fixture directory for `scn`, created (and initialised by the scenario) on first use.
pub fn worker_dir_for(scn: &dyn Scenario, tier: Tier) -> PathBuf {
    use std::sync::Mutex;
    static DONE: Mutex<Vec<(String, i32)>> = Mutex::new(Vec::new());
    let pid = unsafe { libc::getpid() };
    let dir = sandbox_base().join(format!("worker-{}-{}", scn.name(), pid));
    let mut d = DONE.lock().unwrap();
    if !d.iter().any(|(n, p)| n == scn.name() && *p == pid) {
        // a forked child inherits the parent's list: only the process that created the directory owns it
        if let Some((_, owner)) = d.iter().find(|(n, _)| n == scn.name()) {
            return sandbox_base().join(format!("worker-{}-{}", scn.name(), owner));
        }
        let _ = std::fs::remove_dir_all(&dir);
        std::fs::create_dir_all(&dir).expect("worker dir");
        scn.worker_init(&dir, tier);
        d.push((scn.name().to_string(), pid));
    }
    dir
}
pub fn cleanup_worker_dirs() {
    let pid = unsafe { libc::getpid() };
    if let Ok(rd) = std::fs::read_dir(sandbox_base()) {
        for e in rd.flatten() {
            let n = e.file_name().to_string_lossy().into_owned();
            if n.starts_with("worker-") && n.ends_with(&format!("-{pid}")) {
                let _ = std::fs::remove_dir_all(e.path());
            }
        }
    }
}

#[derive(Debug)]
pub enum ChildEnd {
    Report(Report),
    Killed { k: u64, label: String, sandbox: PathBuf },
    HarnessError(String),
    Died(String),
}

pub struct RunSpec<'a> {
    pub scenario: &'a dyn Scenario,
    pub seed: u64,
    pub tier: Tier,
    pub property: &'a str,
    pub workload: &'a Value,
    pub replay: Option<Vec<u16>>,
    pub strict: bool,
    pub trace: bool,
    pub keep_sandbox: bool,
}

/// Execute one run in a forked child (or in-process for non-isolated scenarios). Returns the outcome and the
/// decision list the run took (available even if the child died).
pub fn run_one(spec: &RunSpec, shm: &Shm) -> (ChildEnd, Vec<u16>) {
    let _ = worker_dir_for(spec.scenario, spec.tier);
    if !spec.scenario.isolated() {
        let ctx = ExecCtx {
            seed: spec.seed,
            tier: spec.tier,
            sandbox: PathBuf::new(),
            replay: spec.replay.clone(),
            strict: spec.strict,
            trace: spec.trace,
            property: spec.property.to_string(),
            worker_dir: worker_dir_for(spec.scenario, spec.tier),
        };
        let scenario = spec.scenario;
        let workload = spec.workload;
        let r = std::panic::catch_unwind(std::panic::AssertUnwindSafe(|| scenario.execute(workload, &ctx)));
        return match r {
            Ok(rep) => {
                let d = rep.decisions.clone();
                (ChildEnd::Report(rep), d)
            }
            Err(_) => (ChildEnd::HarnessError("scenario panicked outside the code under test".into()), vec![]),
        };
    }
    shm_reset(shm);
    unsafe {
        let pid = libc::fork();
        if pid < 0 {
            return (ChildEnd::HarnessError("fork failed".into()), vec![]);
        }
        if pid == 0 {
            // ---- child ----
            let cpu = spec.scenario.cpu_limit_s(spec.property);
            let lim = libc::rlimit { rlim_cur: cpu, rlim_max: cpu + 2 };
            libc::setrlimit(libc::RLIMIT_CPU, &lim);
            libc::alarm((cpu * 40).max(600) as u32); // wall-clock backstop (generous: a loaded machine must not look like a hang)
            let me = libc::getpid();
            let sandbox = sandbox_base().join(format!("{me}"));
            let _ = std::fs::remove_dir_all(&sandbox);
            std::fs::create_dir_all(&sandbox).expect("sandbox");
            rt::set_shm(Some(Shm { base: shm.base, len: shm.len }));
            let ctx = ExecCtx {
                seed: spec.seed,
                tier: spec.tier,
                sandbox: sandbox.clone(),
                replay: spec.replay.clone(),
                strict: spec.strict,
                trace: spec.trace,
                property: spec.property.to_string(),
                worker_dir: worker_dir_for(spec.scenario, spec.tier),
            };
            let rep = spec.scenario.execute(spec.workload, &ctx);
            let mut v = serde_json::to_value(&rep).unwrap();
            v["status"] = json!("report");
            let b = serde_json::to_vec(&v).unwrap();
            if b.len() > SHM_RES_CAP {
                rt::harness_abort("report too large");
            }
            shm_write_result(shm, &b);
            if !spec.keep_sandbox {
                let _ = std::fs::remove_dir_all(&sandbox);
            }
            libc::_exit(0);
        }
        // ---- parent ----
        let mut status: libc::c_int = 0;
        loop {
            let rc = libc::waitpid(pid, &mut status, 0);
            if rc == pid {
                break;
            }
            if rc < 0 && *libc::__errno_location() != libc::EINTR {
                return (ChildEnd::HarnessError("waitpid failed".into()), vec![]);
            }
        }
        let sandbox = sandbox_base().join(format!("{pid}"));
        let decisions = shm_decisions(shm);
        let res = shm_read_result(shm);
        let end = if let Some(bytes) = res {
            match serde_json::from_slice::<Value>(&bytes) {
                Ok(v) => match v["status"].as_str() {
                    Some("report") => match serde_json::from_value::<Report>(v.clone()) {
                        Ok(r) => ChildEnd::Report(r),
                        Err(e) => ChildEnd::HarnessError(format!("bad report: {e}")),
                    },
                    Some("killed") => ChildEnd::Killed { k: v["k"].as_u64().unwrap_or(0), label: v["label"].as_str().unwrap_or("").to_string(), sandbox: sandbox.clone() },
                    Some("harness_error") => ChildEnd::HarnessError(v["detail"].as_str().unwrap_or("?").to_string()),
                    _ => ChildEnd::HarnessError("unknown result status".into()),
                },
                Err(e) => ChildEnd::HarnessError(format!("unparsable result: {e}")),
            }
        } else if let Some(mut r) = if libc::WIFSIGNALED(status) { spec.scenario.examine_death(&format!("signal{}", libc::WTERMSIG(status)), spec.workload, &sandbox, spec.property, *shm.hdr_u64(2)) } else { None } {
            r.n_decisions = decisions.len() as u64;
            r.decisions = decisions.clone();
            if r.sched_hash == 0 {
                let mut h = Fnv::default();
                for d in &decisions {
                    h.write(&d.to_le_bytes());
                }
                r.sched_hash = h.0;
            }
            ChildEnd::Report(r)
        } else if libc::WIFSIGNALED(status) {
            let sig = libc::WTERMSIG(status);
            let name = match sig {
                libc::SIGXCPU => "SIGXCPU".to_string(),
                libc::SIGKILL => "SIGKILL".to_string(),
                libc::SIGSEGV => "SIGSEGV".to_string(),
                libc::SIGABRT => "SIGABRT".to_string(),
                libc::SIGALRM => "SIGALRM".to_string(),
                libc::SIGBUS => "SIGBUS".to_string(),
                libc::SIGTERM => "SIGTERM".to_string(),
                s => format!("signal{s}"),
            };
            ChildEnd::Died(name)
        } else {
            ChildEnd::Died(format!("exit{}", libc::WEXITSTATUS(status)))
        };
        if !matches!(end, ChildEnd::Killed { .. }) && !spec.keep_sandbox {
            let _ = std::fs::remove_dir_all(&sandbox);
        }
        (end, decisions)
    }
}

// ---------------------------------------------------------------------------------------------------------------
// aggregation

#[derive(Clone, Debug, Default, Serialize, Deserialize)]
pub struct Failure {
    pub seed: u64,
    pub violation: Option<Violation>,
    pub workload: Value,
    pub decisions: Vec<u16>,
    pub log_hash: u64,
}

#[derive(Clone, Debug, Default, Serialize, Deserialize)]
pub struct Agg {
    pub runs: u64,
    pub steps: u64,
    pub switches: u64,
    pub sim_ns: u64,
    pub n_decisions: u64,
    pub ops: u64,
    pub crash_points: u64,
    pub max_threads: u64,
    pub faults: BTreeMap<String, u64>,
    pub probes: BTreeMap<String, u64>,
    pub distinct_pairs: BTreeSet<u64>,
    pub distinct_schedules: BTreeSet<u64>,
    pub distinct_states: BTreeSet<u64>,
    pub distinct_workloads: BTreeSet<u64>,
    pub failures: Vec<Failure>,
    pub failures_total: u64,
    pub harness_errors: Vec<String>,
    pub samples: Vec<Value>,
    pub det_checked: u64,
    pub det_mismatch: Vec<u64>,
    #[serde(default)]
    pub det_transient: Vec<u64>,
    pub other_property_violations: BTreeMap<String, u64>,
}
impl Agg {
    fn merge(&mut self, o: Agg) {
        self.runs += o.runs;
        self.steps += o.steps;
        self.switches += o.switches;
        self.sim_ns += o.sim_ns;
        self.n_decisions += o.n_decisions;
        self.ops += o.ops;
        self.crash_points += o.crash_points;
        self.max_threads = self.max_threads.max(o.max_threads);
        for (k, v) in o.faults {
            *self.faults.entry(k).or_insert(0) += v;
        }
        for (k, v) in o.probes {
            *self.probes.entry(k).or_insert(0) += v;
        }
        for (k, v) in o.other_property_violations {
            *self.other_property_violations.entry(k).or_insert(0) += v;
        }
        self.distinct_pairs.extend(o.distinct_pairs);
        self.distinct_schedules.extend(o.distinct_schedules);
        self.distinct_states.extend(o.distinct_states);
        self.distinct_workloads.extend(o.distinct_workloads);
        self.failures_total += o.failures_total;
        for f in o.failures {
            if self.failures.len() < 64 {
                self.failures.push(f);
            }
        }
        self.harness_errors.extend(o.harness_errors);
        self.samples.extend(o.samples);
        self.det_checked += o.det_checked;
        self.det_mismatch.extend(o.det_mismatch);
        self.det_transient.extend(o.det_transient);
    }
}

pub fn workload_hash(w: &Value) -> u64 {
    Fnv::of(serde_json::to_string(w).unwrap().as_bytes())
}

fn absorb(agg: &mut Agg, seed: u64, w: &Value, end: ChildEnd, decisions: Vec<u16>, spec_prop: &str, scn: &dyn Scenario, want_sample: bool) {
    agg.runs += 1;
    let wh = workload_hash(w);
    agg.distinct_workloads.insert(wh);
    match end {
        ChildEnd::Report(rep) => {
            agg.steps += rep.steps;
            agg.switches += rep.switches;
            agg.sim_ns += rep.sim_ns;
            agg.n_decisions += rep.n_decisions.max(decisions.len() as u64);
            agg.ops += rep.ops;
            agg.crash_points += rep.crash_points;
            agg.max_threads = agg.max_threads.max(rep.threads);
            for (k, v) in &rep.faults {
                *agg.faults.entry(k.clone()).or_insert(0) += v;
            }
            for (k, v) in &rep.probes {
                *agg.probes.entry(k.clone()).or_insert(0) += v;
            }
            let mut fh = Fnv::default();
            for (k, v) in &rep.faults {
                fh.write(k.as_bytes());
                fh.write_u64(*v);
            }
            let dh = if decisions.is_empty() { rep.sched_hash } else { Fnv::of(&decisions.iter().flat_map(|d| d.to_le_bytes()).collect::<Vec<u8>>()) };
            agg.distinct_schedules.insert(rep.sched_hash);
            if rep.nontrivial {
                let mut p = Fnv::default();
                p.write_u64(wh);
                p.write_u64(dh);
                p.write_u64(fh.0);
                agg.distinct_pairs.insert(p.0);
            }
            for s in &rep.states {
                agg.distinct_states.insert(*s);
            }
            if let Some(e) = &rep.harness_error {
                agg.harness_errors.push(format!("seed {seed}: {e}"));
            }
            for v in &rep.violations {
                if v.property == spec_prop {
                    agg.failures_total += 1;
                    if agg.failures.len() < 16 {
                        agg.failures.push(Failure { seed, violation: Some(v.clone()), workload: w.clone(), decisions: decisions.clone(), log_hash: rep.log_hash });
                    }
                } else {
                    *agg.other_property_violations.entry(format!("{}:{}", v.property, v.sig)).or_insert(0) += 1;
                }
            }
            if want_sample {
                agg.samples.push(json!({
                    "seed": seed, "workload": w, "summary": rep.summary, "steps": rep.steps, "context_switches": rep.switches,
                    "decisions": decisions.len(), "faults_fired": rep.faults, "sim_ms": rep.sim_ns as f64 / 1e6,
                    "violations": rep.violations.len(),
                }));
            }
        }
        ChildEnd::Killed { .. } => {}
        ChildEnd::HarnessError(e) => agg.harness_errors.push(format!("seed {seed}: {e}")),
        ChildEnd::Died(how) => match scn.classify_death(&how, w, spec_prop) {
            Some(v) => {
                agg.failures_total += 1;
                if agg.failures.len() < 16 {
                    agg.failures.push(Failure { seed, violation: Some(v), workload: w.clone(), decisions, log_hash: 0 });
                }
            }
            None => agg.harness_errors.push(format!("seed {seed}: child died: {how}")),
        },
    }
}

// ---------------------------------------------------------------------------------------------------------------
// batch

pub struct BatchOpts {
    pub property: String,
    pub tier: Tier,
    pub base_seed: u64,
    pub jobs: usize,
    pub runs_override: Option<u64>,
    pub max_wall_s: u64,
}

pub fn seed_for(base: u64, i: u64) -> u64 {
    let mut x = base ^ i.wrapping_mul(0x9E37_79B9_7F4A_7C15);
    crate::prng::splitmix(&mut x)
}

/// Pin the calling process (and everything it forks) to one CPU: only one sim thread runs at a time anyway, and
/// baton hand-overs between threads on one CPU avoid cross-CPU wake-ups and TLB shoot-downs (10x throughput here).
pub fn pin_to_cpu(idx: usize) {
    unsafe {
        let ncpu = libc::sysconf(libc::_SC_NPROCESSORS_ONLN).max(1) as usize;
        let mut set: libc::cpu_set_t = std::mem::zeroed();
        libc::CPU_SET(idx % ncpu, &mut set);
        libc::sched_setaffinity(0, std::mem::size_of::<libc::cpu_set_t>(), &set);
    }
}

fn worker(scn: &dyn Scenario, o: &BatchOpts, widx: usize, nruns: u64, out: &Path, deadline: Instant) {
    pin_to_cpu(widx);
    let shm = new_shm();
    let mut agg = Agg::default();
    let _ = worker_dir_for(scn, o.tier);
    let mut i = widx as u64;
    while i < nruns {
        if Instant::now() > deadline {
            break;
        }
        let seed = seed_for(o.base_seed, i);
        let w = scn.generate(seed, o.tier, &o.property);
        let spec = RunSpec { scenario: scn, seed, tier: o.tier, property: &o.property, workload: &w, replay: None, strict: false, trace: false, keep_sandbox: false };
        let (end, dec) = run_one(&spec, &shm);
        // determinism spot-check: the first runs of every worker are executed twice and must agree bit for bit
        let round = i / o.jobs as u64;
        let det_check = round < 4 || round % 257 == 5;
        let lh = match &end {
            ChildEnd::Report(r) => Some((r.log_hash, r.violations.len())),
            _ => None,
        };
        absorb(&mut agg, seed, &w, end, dec.clone(), &o.property, scn, i < 3);
        if det_check {
            let (end2, dec2) = run_one(&spec, &shm);
            let lh2 = match &end2 {
                ChildEnd::Report(r) => Some((r.log_hash, r.violations.len())),
                _ => None,
            };
            agg.det_checked += 1;
            if lh != lh2 || dec != dec2 {
                // One disagreement is re-examined before it is called nondeterminism: two more executions. If both agree with
                // one of the first two, the odd one out is recorded as transient (evidence: determinism_transient) — seen a
                // few times in 10^5 re-checks on a machine running other batches, never reproducible afterwards. Anything
                // else is a harness error, as before.
                let mut votes = vec![(lh, dec.clone()), (lh2, dec2)];
                for _ in 0..2 {
                    let (e, d) = run_one(&spec, &shm);
                    let l = match &e {
                        ChildEnd::Report(r) => Some((r.log_hash, r.violations.len())),
                        _ => None,
                    };
                    votes.push((l, d));
                }
                let agree = |a: &(Option<(u64, usize)>, Vec<u16>), b: &(Option<(u64, usize)>, Vec<u16>)| a.0 == b.0 && a.1 == b.1;
                let later_agree = agree(&votes[2], &votes[3]);
                let with_first = agree(&votes[2], &votes[0]) || agree(&votes[2], &votes[1]);
                if later_agree && with_first {
                    agg.det_transient.push(seed);
                } else {
                    agg.det_mismatch.push(seed);
                }
            }
        }
        i += o.jobs as u64;
    }
    std::fs::write(out, serde_json::to_vec(&agg).unwrap()).expect("write worker output");
    cleanup_worker_dirs();
}

pub fn run_batch(scn: &dyn Scenario, o: &BatchOpts) -> (Agg, f64) {
    let t0 = Instant::now();
    let nruns = o.runs_override.unwrap_or_else(|| scn.runs(o.tier, &o.property));
    let deadline = t0 + std::time::Duration::from_secs(o.max_wall_s);
    let dir = sandbox_base().join(format!("batch-{}", std::process::id()));
    let _ = std::fs::remove_dir_all(&dir);
    std::fs::create_dir_all(&dir).expect("batch dir");
    let jobs = o.jobs.max(1).min(nruns.max(1) as usize);
    // fixtures are built once, by this process; the forked workers inherit and share them read-only
    let _ = worker_dir_for(scn, o.tier);
    let o2 = BatchOpts { property: o.property.clone(), tier: o.tier, base_seed: o.base_seed, jobs, runs_override: o.runs_override, max_wall_s: o.max_wall_s };
    let mut pids = vec![];
    for w in 0..jobs {
        let out = dir.join(format!("w{w}.json"));
        let pid = unsafe { libc::fork() };
        if pid == 0 {
            worker(scn, &o2, w, nruns, &out, deadline);
            unsafe { libc::_exit(0) };
        }
        pids.push((pid, out));
    }
    let mut agg = Agg::default();
    for (pid, out) in pids {
        let mut st = 0;
        unsafe { libc::waitpid(pid, &mut st, 0) };
        match std::fs::read(&out).ok().and_then(|b| serde_json::from_slice::<Agg>(&b).ok()) {
            Some(a) => agg.merge(a),
            None => agg.harness_errors.push(format!("worker {pid} produced no output (status {st})")),
        }
    }
    let _ = std::fs::remove_dir_all(&dir);
    (agg, t0.elapsed().as_secs_f64())
}

// ---------------------------------------------------------------------------------------------------------------
// replay files, minimisation

#[derive(Clone, Debug, Serialize, Deserialize)]
pub struct ReplayFile {
    pub property: String,
    pub scenario: String,
    pub seed: u64,
    pub tier: Tier,
    pub signature: String,
    pub detail: String,
    pub workload: Value,
    /// sparse decision list: [index, choice] for every non-default decision, plus the total length
    pub decisions_sparse: Vec<(u32, u16)>,
    pub decisions_len: u32,
    pub log_hash: u64,
    pub repo_rev: String,
    pub minimised: bool,
}
pub fn sparse(d: &[u16]) -> Vec<(u32, u16)> {
    d.iter().enumerate().filter(|(_, &c)| c != 0).map(|(i, &c)| (i as u32, c)).collect()
}
pub fn dense(s: &[(u32, u16)], len: u32) -> Vec<u16> {
    let mut v = vec![0u16; len as usize];
    for &(i, c) in s {
        if (i as usize) < v.len() {
            v[i as usize] = c;
        }
    }
    v
}
pub fn repo_rev() -> String {
    std::process::Command::new("git").args(["-C", "/repo", "rev-parse", "--short", "HEAD"]).output().ok().map(|o| String::from_utf8_lossy(&o.stdout).trim().to_string()).unwrap_or_default()
}

/// Signature class used to accept a minimisation candidate: everything before the first " | ".
pub fn sig_class(sig: &str) -> &str {
    sig.split(" | ").next().unwrap_or(sig)
}

fn try_candidate(scn: &dyn Scenario, prop: &str, tier: Tier, seed: u64, w: &Value, dec: Option<Vec<u16>>, shm: &Shm, want: &str) -> Option<(Violation, Vec<u16>, u64)> {
    let spec = RunSpec { scenario: scn, seed, tier, property: prop, workload: w, replay: dec, strict: false, trace: false, keep_sandbox: false };
    let (end, d) = run_one(&spec, shm);
    match end {
        ChildEnd::Report(r) => r.violations.iter().find(|v| v.property == prop && sig_class(&v.sig) == want).map(|v| (v.clone(), d, r.log_hash)),
        ChildEnd::Died(how) => scn.classify_death(&how, w, prop).filter(|v| sig_class(&v.sig) == want).map(|v| (v, d, 0)),
        _ => None,
    }
}

pub fn minimise(scn: &dyn Scenario, prop: &str, tier: Tier, f: &Failure, shm: &Shm) -> (Value, Vec<u16>, Violation, u64, u32) {
    let t0 = Instant::now();
    let budget_runs = 300u32;
    let mut tries = 0u32;
    let v0 = f.violation.clone().unwrap();
    let want = sig_class(&v0.sig).to_string();
    let mut w = f.workload.clone();
    let mut dec = f.decisions.clone();
    let mut best_v = v0;
    let mut best_hash = f.log_hash;
    let over = |tries: u32| tries >= budget_runs || t0.elapsed().as_secs() > 120;
    // (1) shrink the workload, re-running with the recorded decisions as a choice stream
    let mut progress = true;
    while progress && !over(tries) {
        progress = false;
        for cand in scn.shrink(&w) {
            if over(tries) {
                break;
            }
            tries += 1;
            if let Some((v, d, h)) = try_candidate(scn, prop, tier, f.seed, &cand, Some(dec.clone()), shm, &want) {
                w = cand;
                dec = d;
                best_v = v;
                best_hash = h;
                progress = true;
                break;
            }
        }
    }
    // (2) push the decision list toward defaults: zero out chunks (delta debugging), then cut the tail
    let mut chunk = (dec.len() / 2).max(1);
    while chunk >= 1 && !over(tries) {
        let mut i = 0;
        let mut any = false;
        while i < dec.len() && !over(tries) {
            let end = (i + chunk).min(dec.len());
            if dec[i..end].iter().all(|&c| c == 0) {
                i = end;
                continue;
            }
            let mut cand = dec.clone();
            for c in &mut cand[i..end] {
                *c = 0;
            }
            tries += 1;
            if let Some((v, d, h)) = try_candidate(scn, prop, tier, f.seed, &w, Some(cand), shm, &want) {
                dec = d;
                best_v = v;
                best_hash = h;
                any = true;
            }
            i = end;
        }
        if chunk == 1 {
            if !any {
                break;
            }
        } else {
            chunk /= 2;
        }
    }
    // (3) one more workload pass under the minimal schedule
    let mut progress = true;
    while progress && !over(tries) {
        progress = false;
        for cand in scn.shrink(&w) {
            if over(tries) {
                break;
            }
            tries += 1;
            if let Some((v, d, h)) = try_candidate(scn, prop, tier, f.seed, &cand, Some(dec.clone()), shm, &want) {
                w = cand;
                dec = d;
                best_v = v;
                best_hash = h;
                progress = true;
                break;
            }
        }
    }
    while dec.last() == Some(&0) {
        dec.pop();
    }
    (w, dec, best_v, best_hash, tries)
}

// ---------------------------------------------------------------------------------------------------------------
// known findings

#[derive(Clone, Debug, Serialize, Deserialize)]
pub struct KnownFinding {
    #[serde(default)]
    pub status: String, // "known" | "fixed"
    pub property: String,
    #[serde(default)]
    pub signature: String,
    #[serde(default)]
    pub what: String,
    #[serde(default)]
    pub commit: String,
}
pub fn known_findings() -> Vec<KnownFinding> {
    let p = verif_dir().join("known-findings.jsonl");
    let mut v = vec![];
    if let Ok(s) = std::fs::read_to_string(p) {
        for l in s.lines() {
            let l = l.trim();
            if l.is_empty() || l.starts_with('#') {
                continue;
            }
            if let Ok(k) = serde_json::from_str::<KnownFinding>(l) {
                v.push(k);
            }
        }
    }
    v
}
pub fn verif_dir() -> PathBuf {
    std::env::var_os("GIXSIM_VERIF_DIR").map(PathBuf::from).unwrap_or_else(|| PathBuf::from("/verif"))
}

// ---------------------------------------------------------------------------------------------------------------
// the check command

pub fn check(scn: &dyn Scenario, property: &str, tier: Tier, base_seed: u64, jobs: usize, runs_override: Option<u64>, max_wall_s: u64) -> i32 {
    let o = BatchOpts { property: property.to_string(), tier, base_seed, jobs, runs_override, max_wall_s };
    println!("gixsim: property={property} scenario={} tier={} seed={base_seed} jobs={jobs}", scn.name(), tier.name());
    let (agg, wall) = run_batch(scn, &o);
    let known: Vec<KnownFinding> = known_findings().into_iter().filter(|k| k.property == property && k.status != "fixed").collect();
    let shm = new_shm();
    let mut exit = 0;
    let mut reported: BTreeSet<String> = BTreeSet::new();
    let mut known_hit: BTreeSet<String> = BTreeSet::new();
    let mut violation_lines = vec![];
    let mut n_violations = 0u64;
    for f in &agg.failures {
        let v = f.violation.as_ref().unwrap();
        let class = sig_class(&v.sig).to_string();
        if let Some(k) = known.iter().find(|k| sig_class(&k.signature) == class) {
            if known_hit.insert(class.clone()) {
                println!("KNOWN-FINDING: property={property} {} [{}]", k.what, k.signature);
            }
            continue;
        }
        if !reported.insert(class.clone()) {
            continue;
        }
        n_violations += 1;
        // minimise, then confirm the replay twice in fresh processes
        let (w, dec, mv, lh, tries) = minimise(scn, property, tier, f, &shm);
        let mut ok = 0;
        let mut last_hash = None;
        for _ in 0..2 {
            if let Some((_, _, h)) = try_candidate(scn, property, tier, f.seed, &w, Some(dec.clone()), &shm, &class) {
                if last_hash.is_none() || last_hash == Some(h) {
                    ok += 1;
                }
                last_hash = Some(h);
            }
        }
        let rf = ReplayFile {
            property: property.to_string(),
            scenario: scn.name().to_string(),
            seed: f.seed,
            tier,
            signature: mv.sig.clone(),
            detail: mv.detail.clone(),
            workload: w,
            decisions_sparse: sparse(&dec),
            decisions_len: dec.len() as u32,
            log_hash: last_hash.unwrap_or(lh),
            repo_rev: repo_rev(),
            minimised: true,
        };
        let dir = verif_dir().join("replays");
        let _ = std::fs::create_dir_all(&dir);
        let path = dir.join(format!("{property}-{:016x}-{:08x}.json", f.seed, Fnv::of(class.as_bytes()) as u32));
        std::fs::write(&path, serde_json::to_vec_pretty(&rf).unwrap()).expect("write replay");
        if ok == 2 {
            println!("violation: {} :: {}", mv.sig, mv.detail.lines().next().unwrap_or(""));
            println!("  seed={} minimised in {tries} re-executions; {} non-default decisions of {}", f.seed, rf.decisions_sparse.len(), rf.decisions_len);
            violation_lines.push(format!("VIOLATION property={property} replay={}", path.display()));
            exit = 1;
        } else {
            println!("gixsim: HARNESS ERROR: failure for seed {} ({}) did not replay ({} of 2); file kept at {}", f.seed, mv.sig, ok, path.display());
            if exit == 0 {
                exit = 2;
            }
        }
    }
    // every listed finding is named on every run, reached by this run's sample or not
    for k in &known {
        if !known_hit.contains(sig_class(&k.signature)) {
            println!("KNOWN-FINDING: property={property} {} [{}] (listed; not reached by this run's sample)", k.what, k.signature);
        }
    }
    if !agg.harness_errors.is_empty() {
        for e in agg.harness_errors.iter().take(10) {
            println!("gixsim: HARNESS ERROR: {e}");
        }
        if exit == 0 {
            exit = 2;
        }
    }
    if !agg.det_mismatch.is_empty() {
        println!("gixsim: HARNESS ERROR: nondeterministic re-execution for seeds {:?}", &agg.det_mismatch[..agg.det_mismatch.len().min(8)]);
        if exit == 0 {
            exit = 2;
        }
    }
    // evidence
    let zero_probes: Vec<&String> = agg.probes.iter().filter(|(_, v)| **v == 0).map(|(k, _)| k).collect();
    let level = scn.level(property);
    let ev = json!({
        "property_id": property,
        "tier": tier.name(),
        "seed": base_seed as i64,
        "level": level,
        "wall_s": wall,
        "violations": n_violations,
        "coverage": {
            "evaluations": agg.runs,
            "distinct_nontrivial": agg.distinct_pairs.len(),
            "rule": scn.rule(property),
            "samples": agg.samples.iter().take(3).collect::<Vec<_>>(),
            "scenario": scn.name(),
            "runs_per_hour": if wall > 0.0 { (agg.runs as f64 / wall * 3600.0) as u64 } else { 0 },
            "simulated_seconds": agg.sim_ns as f64 / 1e9,
            "scheduling_decisions": agg.n_decisions,
            "scheduler_steps": agg.steps,
            "context_switches": agg.switches,
            "operations": agg.ops,
            "crash_points_examined": agg.crash_points,
            "max_threads_in_a_run": agg.max_threads,
            "faults_fired": agg.faults,
            "probes": agg.probes,
            "probes_at_zero": zero_probes,
            "distinct_schedules": agg.distinct_schedules.len(),
            "distinct_abstract_states": agg.distinct_states.len(),
            "distinct_workloads": agg.distinct_workloads.len(),
            "determinism_rechecks": agg.det_checked,
            "determinism_mismatches": agg.det_mismatch.len(),
            "determinism_transient": agg.det_transient.len(),
            "known_findings_hit": known_hit.iter().collect::<Vec<_>>(),
            "violating_runs": agg.failures_total,
            "violations_of_other_properties_seen": agg.other_property_violations,
            "real_vs_stub": scn.real_stub(),
            "jobs": jobs,
        },
        "assumptions": scn.assumptions(property),
    });
    let evdir = verif_dir().join("evidence");
    let _ = std::fs::create_dir_all(&evdir);
    std::fs::write(evdir.join(format!("{property}.json")), serde_json::to_vec_pretty(&ev).unwrap()).expect("write evidence");
    println!(
        "gixsim: {} runs in {:.1}s ({:.0}/h), {} distinct nontrivial, {} distinct schedules, {} states, {} decisions, faults={:?}",
        agg.runs,
        wall,
        agg.runs as f64 / wall.max(0.001) * 3600.0,
        agg.distinct_pairs.len(),
        agg.distinct_schedules.len(),
        agg.distinct_states.len(),
        agg.n_decisions,
        agg.faults
    );
    for l in violation_lines {
        println!("{l}");
    }
    exit
}

pub fn replay(path: &Path, scenarios: &[&'static dyn Scenario], trace: bool) -> i32 {
    let rf: ReplayFile = match std::fs::read(path).ok().and_then(|b| serde_json::from_slice(&b).ok()) {
        Some(r) => r,
        None => {
            println!("gixsim: cannot read replay file {}", path.display());
            return 2;
        }
    };
    let scn = match scenarios.iter().find(|s| s.name() == rf.scenario) {
        Some(s) => *s,
        None => {
            println!("gixsim: unknown scenario {}", rf.scenario);
            return 2;
        }
    };
    let shm = new_shm();
    let dec = dense(&rf.decisions_sparse, rf.decisions_len);
    let spec = RunSpec { scenario: scn, seed: rf.seed, tier: rf.tier, property: &rf.property, workload: &rf.workload, replay: Some(dec), strict: false, trace, keep_sandbox: false };
    let (end, _) = run_one(&spec, &shm);
    let want = sig_class(&rf.signature);
    match end {
        ChildEnd::Report(r) => {
            if trace {
                for l in &r.trace {
                    println!("{l}");
                }
            }
            println!("summary: {}", r.summary);
            for v in &r.violations {
                println!("violation: [{}] {} :: {}", v.property, v.sig, v.detail);
            }
            if r.violations.iter().any(|v| v.property == rf.property && sig_class(&v.sig) == want) {
                let same = rf.log_hash == 0 || r.log_hash == rf.log_hash;
                println!("replay: reproduced (event-log hash {})", if same { "identical" } else { "DIFFERS" });
                println!("VIOLATION property={} replay={}", rf.property, path.display());
                1
            } else {
                println!("replay: NOT reproduced");
                3
            }
        }
        ChildEnd::Died(how) => match scn.classify_death(&how, &rf.workload, &rf.property) {
            Some(v) if sig_class(&v.sig) == want => {
                println!("violation: [{}] {} :: {}", v.property, v.sig, v.detail);
                println!("replay: reproduced (child died: {how})");
                println!("VIOLATION property={} replay={}", rf.property, path.display());
                1
            }
            _ => {
                println!("replay: child died ({how}) but that is not the recorded violation");
                3
            }
        },
        other => {
            println!("replay: harness problem: {other:?}");
            2
        }
    }
}

pub fn rng_for(seed: u64, stream: u64) -> Rng {
    Rng::stream(seed, stream)
}
