//! Command line shared by the harness binaries.
use crate::driver::*;

fn for_property(all: &[&'static dyn Scenario], p: &str) -> Option<&'static dyn Scenario> {
    all.iter().copied().find(|s| s.properties().contains(&p))
}

fn arg_val(args: &[String], name: &str) -> Option<String> {
    args.iter().position(|a| a == name).and_then(|i| args.get(i + 1).cloned())
}

fn disable_aslr_and_reexec() {
    if std::env::var_os("GIXSIM_NOASLR").is_some() {
        return;
    }
    unsafe {
        const ADDR_NO_RANDOMIZE: libc::c_ulong = 0x0040000;
        let cur = libc::personality(0xffff_ffff);
        if cur >= 0 && libc::personality(cur as libc::c_ulong | ADDR_NO_RANDOMIZE) >= 0 {
            std::env::set_var("GIXSIM_NOASLR", "1");
            use std::os::unix::process::CommandExt;
            let args: Vec<String> = std::env::args().collect();
            let e = std::process::Command::new("/proc/self/exe").args(&args[1..]).exec();
            eprintln!("gixsim: re-exec failed: {e}");
        }
    }
}

pub fn cli_main(all: Vec<&'static dyn Scenario>) -> ! {
    disable_aslr_and_reexec();
    crate::rt::install_panic_hook();
    let args: Vec<String> = std::env::args().collect();
    let cmd = args.get(1).map(String::as_str).unwrap_or("help");
    let env_seed = std::env::var("VERIF_SEED").ok().and_then(|s| s.parse::<u64>().ok());
    let seed = arg_val(&args, "--seed").and_then(|s| s.parse().ok()).or(env_seed).unwrap_or(0x5EED);
    let ncpu = std::thread::available_parallelism().map_or(4, |n| n.get());
    let jobs_cli: Option<usize> = arg_val(&args, "--jobs").and_then(|s| s.parse().ok());
    let _ = ncpu;
    let tier = match arg_val(&args, "--tier").or_else(|| std::env::var("VERIF_TIER").ok()).as_deref() {
        Some("thorough") => Tier::Thorough,
        _ => Tier::Quick,
    };
    let runs = arg_val(&args, "--runs").and_then(|s| s.parse().ok());
    let max_wall = arg_val(&args, "--max-wall").and_then(|s| s.parse().ok()).unwrap_or(match tier {
        Tier::Quick => 600,
        Tier::Thorough => 7200,
    });
    let _ = std::fs::create_dir_all(sandbox_base());
    let code = match cmd {
        "check" => {
            let prop = args.get(2).cloned().unwrap_or_default();
            match for_property(&all, &prop) {
                Some(s) => check(s, &prop, tier, seed, jobs_cli.unwrap_or_else(|| s.jobs_hint().min(ncpu)), runs, max_wall),
                None => {
                    eprintln!("gixsim: no scenario decides property {prop}");
                    2
                }
            }
        }
        "replay" => {
            let path = args.get(2).cloned().unwrap_or_default();
            replay(std::path::Path::new(&path), &all, args.iter().any(|a| a == "--trace"))
        }
        "one" => {
            // debugging aid: one seed of one property, trace printed
            let prop = args.get(2).cloned().unwrap_or_default();
            match for_property(&all, &prop) {
                Some(s) => {
                    let w = s.generate(seed, tier, &prop);
                    println!("workload: {}", serde_json::to_string(&w).unwrap());
                    let shm = new_shm();
                    let spec = RunSpec { scenario: s, seed, tier, property: &prop, workload: &w, replay: None, strict: false, trace: args.iter().any(|a| a == "--trace"), keep_sandbox: args.iter().any(|a| a == "--keep") };
                    let (end, dec) = run_one(&spec, &shm);
                    match end {
                        ChildEnd::Report(r) => {
                            for l in &r.trace {
                                println!("{l}");
                            }
                            println!("summary: {}", r.summary);
                            println!("steps={} switches={} decisions={} log_hash={:016x} probes={:?} faults={:?}", r.steps, r.switches, dec.len(), r.log_hash, r.probes, r.faults);
                            for v in &r.violations {
                                println!("violation: [{}] {} :: {}", v.property, v.sig, v.detail);
                            }
                            if let Some(e) = r.harness_error {
                                println!("harness error: {e}");
                            }
                            0
                        }
                        other => {
                            println!("{other:?} (decisions={})", dec.len());
                            1
                        }
                    }
                }
                None => 2,
            }
        }
        "list" => {
            for s in all.iter() {
                println!("{} {:?}", s.name(), s.properties());
            }
            0
        }
        _ => {
            eprintln!("usage: gixsim check <PROP> [--tier quick|thorough] [--seed N] [--jobs J] [--runs N] | replay <file> [--trace] | one <PROP> --seed N [--trace] | list");
            2
        }
    };
    cleanup_worker_dirs();
    if std::env::var_os("GIXSIM_KEEP").is_none() {
        remove_sandbox_base();
    }
    std::process::exit(code);
}
