#!/bin/bash
# Cargo rustc wrapper for the harness build: adds LLVM SanitizerCoverage edge callbacks (trace-pc-guard) to the gitoxide
# crates whose interleavings matter. The harness defines __sanitizer_cov_trace_pc_guard as a *pre-emption opportunity*:
# a seeded countdown over executed edges decides where the running thread is pre-empted between two libc calls.
# Nothing in /repo changes; only this build of it is instrumented.
rustc="$1"; shift
# build scripts and proc-macros run on the host without the harness runtime: never instrument them
for a in "$@"; do
  case "$a" in build_script_build|build_script_main) exec "$rustc" "$@" ;; esac
done
case "${CARGO_PKG_NAME:-}" in
  gixsim|gix-features|gix-odb|gix-pack|gix-ref|gix-lock|gix-tempfile|gix-fs|gix-worktree-stream|gix-index|gix-utils)
    exec "$rustc" "$@" -C passes=sancov-module -C llvm-args=-sanitizer-coverage-level=3 -C llvm-args=-sanitizer-coverage-trace-pc-guard -C llvm-args=-sanitizer-coverage-prune-blocks=0 ;;
  *) exec "$rustc" "$@" ;;
esac
