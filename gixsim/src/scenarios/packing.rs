//! C10 — indexing a received pack matches git index-pack (DESIGN §4).
//! Packs made by git (full: ref-delta, ofs-delta, no deltas; thin against a base repository) are fed to
//! `Bundle::write_to_directory` through a faulty `BufRead` with thread limits 1..16 under seeded schedules; destructive
//! stream faults must be rejected without leaving a pack/index pair; crash points leave no pair or a complete one.
use crate::driver::{ExecCtx, Report, Scenario, Tier};
use crate::fsx;
use crate::io::{Choices, FaultyRead, IoPlan};
use crate::prng::{Fnv, Rng, STREAM_FAULT, STREAM_SWARM, STREAM_WORKLOAD};
use crate::rt;
use serde::{Deserialize, Serialize};
use serde_json::{json, Value};
use std::path::Path;
use std::sync::{Arc, Mutex};

pub struct PackIngest;
const P: &str = "C10";
const PACKS: &[&str] = &["full-ref", "full-ofs", "full-nodelta", "thin", "small", "thin-wide-w4-w0", "thin-wide-w2-w0", "thin-wide-w4-w2", "thin-wide-w3-w1", "thin-wide-w1-w0", "thin-wide-w4-w3"];

#[derive(Clone, Debug, Serialize, Deserialize)]
pub struct Workload {
    pub pack: usize,
    pub thread_limit: usize,
    /// 0 Verify, 1 AsIs (benign runs only), 2 Restore (benign runs only)
    pub mode: u8,
    pub bufread_cap: usize,
    pub plan: IoPlan,
    pub crash_points: bool,
    /// destructive: the header's object count is rewritten: 1 = to zero, 2 = one less, 3 = one more
    #[serde(default)]
    pub count_fault: u8,
    pub sched: Value,
}

const FIXTURE_SH: &str = r#"
set -e
export GIT_CONFIG_NOSYSTEM=1 GIT_CONFIG_GLOBAL=/dev/null HOME=/nonexistent TZ=UTC LC_ALL=C
export GIT_AUTHOR_NAME=A GIT_AUTHOR_EMAIL=a@example.com GIT_COMMITTER_NAME=A GIT_COMMITTER_EMAIL=a@example.com
cd "$1"
git init -q w
cd w
git config gc.auto 0; git config pack.threads 1; git config core.compression 1
base() { for i in $(seq 1 60); do echo "line $i of the shared base text which makes deltas attractive $1"; done; }
for c in 1 2 3 4 5 6 7; do
  for f in f1 f2 f3 f4; do base "$f" > $f; echo "change $c in $f" >> $f; [ $c -gt 3 ] && echo "second change $c" >> $f; done
  mkdir -p d/e; base d > d/g; echo "d $c" >> d/g; base e > d/e/h; echo "e $c" >> d/e/h
  echo "small $c" > s$c
  git add -A
  GIT_AUTHOR_DATE="170000000$c +0000" GIT_COMMITTER_DATE="170000000$c +0000" git commit -q -m "c$c"
  git tag c$c
done
GIT_COMMITTER_DATE="1700000009 +0000" git tag -a -m "tag" v1
mkdir ../packs
git pack-objects -q --all --window=10 --depth=10 --stdout < /dev/null > ../packs/full-ref.pack
git pack-objects -q --all --window=10 --depth=10 --delta-base-offset --stdout < /dev/null > ../packs/full-ofs.pack
git pack-objects -q --all --window=0 --stdout < /dev/null > ../packs/full-nodelta.pack
# a second, wide history (many directories, hence many trees per commit): in its thin pack, bases that the receiver
# inserts sit between ofs-deltas and their bases, so that distances cross the 7-bit boundaries of the offset encoding
git checkout -q --orphan wide; git rm -rfq .
text() { awk -v s="$1" -v n="$2" 'BEGIN{ x=s; for(i=0;i<n;i++){ x=(x*1103515245+12345)%2147483648; y=(x*69069+1)%2147483648; z=(y*1103515245+12345)%2147483648; printf "%08x %08x %08x %08x %08x %08x %08x %08x line %d of a file in the wide history\n", x, y, z, (x+y)%2147483648, (x+z)%2147483648, (y+z)%2147483648, (x*3+y)%2147483648, (z*5+x)%2147483648, i } }'; }
idx=0
for g in 1 2 3 4 5 6 7 8; do s=0; while [ $s -lt $g ]; do mkdir -p g$g/s$s; for f in 0 1; do idx=$((idx+1)); text $((idx*7919)) $((8 + idx % 13)) > g$g/s$s/f$f.txt; done; s=$((s+1)); done; done
git add -A; GIT_AUTHOR_DATE="1700000100 +0000" GIT_COMMITTER_DATE="1700000100 +0000" git commit -q -m w0; git branch w0
for round in 1 2 3 4; do
  idx=0
  for f in g*/s*/f0.txt; do idx=$((idx+1)); n=$(wc -l < $f); at=$(( (idx * 31 + round * 17) % n + 1 ))
    sed -i "${at}s/.*/changed in round $round file $idx $(printf '%08x' $((idx*round*2654435761 % 4294967296)))/" $f
    [ $((round % 2)) -eq 1 ] && echo "appended in round $round to $idx" >> $f
  done
  git add -A; GIT_AUTHOR_DATE="170000010$round +0000" GIT_COMMITTER_DATE="170000010$round +0000" git commit -q -m w$round; git branch w$round
done
for b in w0 w1 w2 w3; do
  git init -q --bare ../base-wide-$b
  printf "$b\n" | git pack-objects -q --revs ../base-wide-$b/objects/pack/pack > /dev/null
done
for pair in w4-w0 w2-w0 w4-w2 w3-w1 w1-w0 w4-w3; do
  tip=${pair%-*}; excl=${pair#*-}
  printf "$tip\n^$excl\n" | git pack-objects -q --revs --thin --delta-base-offset --stdout > ../packs/thin-wide-$pair.pack
  mkdir ../expect-thin-wide-$pair
  git rev-list --objects $tip ^$excl | cut -d' ' -f1 | sort > ../expect-thin-wide-$pair/ids.txt
done
git checkout -q master 2>/dev/null || git checkout -q main
git cat-file --batch-all-objects --batch > ../universe.bin
printf 'c7\n^c4\n' | git pack-objects -q --revs --thin --window=10 --delta-base-offset --stdout > ../packs/thin.pack
printf 'c2\n' | git pack-objects -q --revs --window=10 --stdout > ../packs/small.pack
# the base repository for the thin pack: everything reachable from c4
git init -q --bare ../base
printf 'c4\n' | git pack-objects -q --revs --window=10 ../base/objects/pack/pack > /dev/null
# what git index-pack derives
for p in full-ref full-ofs full-nodelta small; do
  mkdir ../expect-$p; cp ../packs/$p.pack ../expect-$p/in.pack
  git index-pack -o ../expect-$p/in.idx ../expect-$p/in.pack > /dev/null
  git verify-pack -v ../expect-$p/in.idx | grep -E '^[0-9a-f]{40} ' | cut -d' ' -f1 | sort > ../expect-$p/ids.txt
done
# thin: the ids the pack carries (bases are added by the receiver)
git -C ../base index-pack --fix-thin --stdin < ../packs/thin.pack > /dev/null
ls ../base/objects/pack/*.idx | while read i; do git verify-pack -v $i | grep -E '^[0-9a-f]{40} ' | cut -d' ' -f1; done | sort -u > ../base-after-ids.txt
mkdir ../expect-thin
git rev-list --objects c7 ^c4 | cut -d' ' -f1 | sort > ../expect-thin/ids.txt
# reset the base repository to its state before the thin pack was completed by git
rm -rf ../base; git init -q --bare ../base
printf 'c4\n' | git pack-objects -q --revs --window=10 ../base/objects/pack/pack > /dev/null
"#;

fn universe(dir: &Path) -> Arc<super::odb::Universe> {
    Arc::new(super::odb::load_universe(dir))
}

#[derive(Default)]
struct Shared {
    result: Mutex<Option<Result<(Option<std::path::PathBuf>, Option<std::path::PathBuf>, u32), String>>>,
}

fn ingest(w: Workload, pack_bytes: Vec<u8>, dir: std::path::PathBuf, base_objects: std::path::PathBuf, seed: u64, replay: Option<Vec<u16>>, sh: Arc<Shared>) {
    let ch = Choices::new(seed, STREAM_FAULT, replay);
    let rd = FaultyRead::new(pack_bytes, w.plan.clone(), ch);
    let mut br = std::io::BufReader::with_capacity(w.bufread_cap.max(1), rd);
    let interrupt = std::sync::atomic::AtomicBool::new(false);
    let mut progress = gix_features::progress::Discard;
    let opts = gix_pack::bundle::write::Options {
        thread_limit: Some(w.thread_limit),
        iteration_mode: match w.mode {
            1 => gix_pack::data::input::Mode::AsIs,
            2 => gix_pack::data::input::Mode::Restore,
            _ => gix_pack::data::input::Mode::Verify,
        },
        index_version: Default::default(),
        object_hash: gix_hash::Kind::Sha1,
    };
    fsx::set_phase(Some("ingest".into()));
    let res = if PACKS[w.pack].starts_with("thin") {
        match gix_odb::at(base_objects) {
            Ok(handle) => gix_pack::Bundle::write_to_directory(&mut br, Some(&dir), &mut progress, &interrupt, Some(handle), opts),
            Err(e) => {
                *sh.result.lock().unwrap() = Some(Err(format!("HARNESS cannot open base odb: {e}")));
                return;
            }
        }
    } else {
        // "storing it in a repository": the repository's (here: empty) object database is what resolves ref-deltas
        let empty = dir.parent().unwrap().join("empty-objects");
        let _ = std::fs::create_dir_all(&empty);
        match gix_odb::at(empty) {
            Ok(handle) => gix_pack::Bundle::write_to_directory(&mut br, Some(&dir), &mut progress, &interrupt, Some(handle), opts),
            Err(e) => {
                *sh.result.lock().unwrap() = Some(Err(format!("HARNESS cannot open empty odb: {e}")));
                return;
            }
        }
    };
    fsx::set_phase(None);
    *sh.result.lock().unwrap() = Some(match res {
        Ok(o) => Ok((o.index_path, o.data_path, o.index.num_objects)),
        Err(e) => {
            let mut msg = format!("{e}");
            let mut src = std::error::Error::source(&e);
            while let Some(x) = src {
                msg.push_str(&format!(" <- {x}"));
                src = x.source();
            }
            Err(msg)
        }
    });
}

fn pairs_in(dir: &Path) -> (Vec<String>, Vec<String>) {
    let mut pairs = vec![];
    let mut others = vec![];
    if let Ok(rd) = std::fs::read_dir(dir) {
        let names: Vec<String> = rd.flatten().map(|e| e.file_name().to_string_lossy().into_owned()).collect();
        for n in &names {
            if n.ends_with(".pack") && names.contains(&n.replace(".pack", ".idx")) {
                pairs.push(n.trim_end_matches(".pack").to_string());
            } else if !n.ends_with(".idx") && !n.ends_with(".keep") && !n.ends_with(".pack") {
                others.push(n.clone());
            }
        }
    }
    (pairs, others)
}

/// Every id of `ids` decodes through the written bundle to the universe's bytes.
fn decode_all(pack_path: &Path, ids: &[gix_hash::ObjectId], uni: &super::odb::Universe) -> Result<(), String> {
    let bundle = gix_pack::Bundle::at(pack_path, gix_hash::Kind::Sha1).map_err(|e| format!("cannot open written bundle: {e}"))?;
    let mut buf = Vec::new();
    let mut inflate = gix_features::zlib::Inflate::default();
    for id in ids {
        match bundle.find(id, &mut buf, &mut inflate, &mut gix_pack::cache::Never) {
            Ok(Some((d, _))) => {
                let (k, bytes) = uni.objs.get(id).ok_or_else(|| format!("{id} not in universe"))?;
                if d.kind != *k || d.data != bytes.as_slice() {
                    return Err(format!("{id} decodes to {} {} bytes, expected {} {} bytes", d.kind, d.data.len(), k, bytes.len()));
                }
            }
            Ok(None) => return Err(format!("{id} is not retrievable from the new index")),
            Err(e) => return Err(format!("{id} fails to decode: {e}")),
        }
    }
    Ok(())
}
fn read_ids(p: &Path) -> Vec<gix_hash::ObjectId> {
    std::fs::read_to_string(p).unwrap_or_default().lines().filter_map(|l| gix_hash::ObjectId::from_hex(l.trim().as_bytes()).ok()).collect()
}

fn generate(seed: u64, tier: Tier) -> Workload {
    let mut r = Rng::stream(seed, STREAM_WORKLOAD);
    let mut sw = Rng::stream(seed, STREAM_SWARM);
    let pack = r.usize_below(PACKS.len());
    let destructive = r.chance(350);
    let crash_points = !destructive && r.chance(120);
    let mut plan = IoPlan { max_chunk: *r.pick(&[0usize, 1, 7, 64, 4096, 70_000]), intr_permille: 0, ..Default::default() };
    let mut count_fault = 0u8;
    if destructive {
        // positions are drawn relative to the pack length at execution time via permille (stored scaled by 1000)
        let at = r.below(1001);
        match r.below(7) {
            0 | 1 => plan.eof_at = Some(at),
            2 | 3 => plan.err_at = Some(at),
            4 | 5 => plan.flip_at = Some((at, 1 << r.below(8))),
            _ => count_fault = 1 + r.below(3) as u8,
        }
    }
    let _ = tier;
    Workload { pack, thread_limit: *r.pick(&[1usize, 1, 2, 3, 4, 8, 16]), mode: if destructive { 0 } else { *r.pick(&[0u8, 0, 0, 1, 2]) }, bufread_cap: *r.pick(&[1usize, 13, 4096, 65_536]), plan, crash_points, count_fault, sched: super::swarm_policy_edges(&mut sw, 400, 30_000) }
}

impl Scenario for PackIngest {
    fn name(&self) -> &'static str {
        "pack_ingest"
    }
    fn properties(&self) -> &'static [&'static str] {
        &[P]
    }
    fn jobs_hint(&self) -> usize {
        16
    }
    fn cpu_limit_s(&self, _p: &str) -> u64 {
        60
    }
    fn runs(&self, tier: Tier, _p: &str) -> u64 {
        super::tier_pick(tier, 4_000, 200_000)
    }
    fn worker_init(&self, dir: &Path, _tier: Tier) {
        let out = std::process::Command::new("bash").arg("-c").arg(FIXTURE_SH).arg("fixture").arg(dir).output().expect("bash");
        if !out.status.success() {
            eprintln!("gixsim: pack fixture script failed: {}", String::from_utf8_lossy(&out.stderr));
            std::process::exit(2);
        }
    }
    fn generate(&self, seed: u64, tier: Tier, _p: &str) -> Value {
        serde_json::to_value(generate(seed, tier)).unwrap()
    }
    fn execute(&self, wv: &Value, ctx: &ExecCtx) -> Report {
        let mut rep = Report::default();
        let mut w: Workload = match serde_json::from_value(wv.clone()) {
            Ok(w) => w,
            Err(e) => {
                rep.harness_error = Some(format!("bad workload: {e}"));
                return rep;
            }
        };
        let name = PACKS[w.pack % PACKS.len()];
        let mut pack_bytes = std::fs::read(ctx.worker_dir.join(format!("packs/{name}.pack"))).expect("fixture pack");
        if w.count_fault != 0 {
            let n = u32::from_be_bytes(pack_bytes[8..12].try_into().unwrap());
            let m = match w.count_fault {
                1 => 0,
                2 => n.saturating_sub(1),
                _ => n + 1,
            };
            pack_bytes[8..12].copy_from_slice(&m.to_be_bytes());
        }
        // resolve permille positions to absolute offsets (biased to header, trailer and the middle)
        let len = pack_bytes.len() as u64;
        let abs = |pm: u64| -> u64 {
            match pm {
                0..=99 => pm % 32,                      // header and first entry
                900..=1000 => len - 1 - (pm - 900) % 24, // trailer and last entry
                _ => pm * len / 1000,
            }
        };
        let destructive = !w.plan.benign() || w.count_fault != 0;
        if let Some(e) = w.plan.eof_at {
            w.plan.eof_at = Some(abs(e).min(len - 1));
        }
        if let Some(e) = w.plan.err_at {
            w.plan.err_at = Some(abs(e).min(len - 1));
        }
        if let Some((e, m)) = w.plan.flip_at {
            let mut at = abs(e).min(len - 1);
            // The header's object count (bytes 8..12, big endian) is used for pre-allocation, as in git; a flip in its two
            // high bytes asks for gigabytes and the failed allocation aborts the process instead of unwinding. Not injected.
            if at == 8 || at == 9 {
                at = 10;
            }
            w.plan.flip_at = Some((at, m));
        }
        let live = ctx.sandbox.join("live");
        let dir = live.join("pack");
        std::fs::create_dir_all(&dir).unwrap();
        // the thin pack's base repository is copied into the sandbox (its object directory is only read)
        let base_objects = ctx.worker_dir.join(match name.strip_prefix("thin-wide-") { Some(pair) => format!("base-wide-{}/objects", pair.rsplit('-').next().unwrap_or("w0")), None => "base/objects".to_string() });
        fsx::configure(fsx::FsCfg { root: live.to_string_lossy().into_owned(), stamp: true, snapshot: w.crash_points, ..Default::default() });
        let mut cfg = ctx.rt_cfg();
        super::apply_swarm(&mut cfg, wv);
        cfg.max_steps = 600_000;
        let sh = Arc::new(Shared::default());
        let (w2, sh2, pb2, dir2, seed, replay) = (w.clone(), sh.clone(), pack_bytes.clone(), dir.clone(), ctx.seed, None::<Vec<u16>>);
        let o = rt::run(cfg, move || ingest(w2, pb2, dir2, base_objects, seed, replay, sh2));
        let fs = fsx::take().unwrap();
        rep.absorb_outcome(&o);
        let shape = format!("pack={name} threads={} {}", if w.thread_limit == 1 { "1".to_string() } else { "n".to_string() }, if destructive { "destructive" } else { "benign" });
        let result = sh.result.lock().unwrap().take();
        if o.deadlock || o.budget_exceeded {
            rep.violate(P, format!("pack {} {shape}", if o.deadlock { "deadlock" } else { "livelock" }), format!("{:?}", o.blocked));
        } else if !o.panics.is_empty() {
            rep.violate(P, format!("pack panic {shape} | {}", o.panics[0].rsplit('/').next().unwrap_or("")), format!("{:?}", o.panics));
        } else {
            let (pairs, others) = pairs_in(&dir);
            match result {
                None => rep.violate(P, format!("pack no-result {shape}"), "write_to_directory did not return".to_string()),
                Some(Err(e)) if e.starts_with("HARNESS") => rep.harness_error = Some(e),
                Some(Err(e)) => {
                    let in_pack_ref_delta = (name == "full-ref" || name == "small") && (e.contains("could not be decoded or wasn't found") || e.contains("Ref delta objects are not supported"));
                    if !destructive && in_pack_ref_delta {
                        rep.violate(P, "pack rejected-valid-stream kind=ref-delta-to-in-pack-base".to_string(), format!("{name}: {e}"));
                    } else if !destructive {
                        rep.violate(P, format!("pack rejected-valid-stream {shape} mode={}", w.mode), format!("{e}"));
                    } else if !pairs.is_empty() {
                        rep.violate(P, format!("pack pair-left-after-rejection {shape}"), format!("error {e:?} but {pairs:?} exists"));
                    }
                    if !others.is_empty() && rep.violations.is_empty() {
                        rep.violate(P, format!("pack tempfile-left-behind {shape}"), format!("{others:?} after error"));
                    }
                }
                Some(Ok((idx_path, data_path, n))) => {
                    if destructive {
                        // a flipped bit may land in the 20 trailer bytes of a *thin* pack (re-written anyway) — otherwise it must be rejected
                        let flip_in_thin_trailer = name.starts_with("thin") && w.plan.flip_at.map_or(false, |(at, _)| at + 20 >= len);
                        if !flip_in_thin_trailer {
                            rep.violate(P, format!("pack accepted-corrupt-stream {shape} fault={}", if w.count_fault != 0 { ["", "count-zero", "count-minus-one", "count-plus-one"][w.count_fault as usize] } else if w.plan.eof_at.is_some() { "eof" } else if w.plan.err_at.is_some() { "error" } else { "flip" }), format!("plan {:?} count_fault={} on a {len}-byte pack was accepted with {n} objects", w.plan, w.count_fault));
                        }
                    } else if w.mode != 2 {
                        let uni = universe(&ctx.worker_dir);
                        match (idx_path, data_path) {
                            (Some(ip), Some(dp)) => {
                                let ids = read_ids(&ctx.worker_dir.join(format!("expect-{name}/ids.txt")));
                                let rewritten = name.starts_with("thin") || name == "full-ref" || name == "small";
                                if !rewritten {
                                    let want_idx = std::fs::read(ctx.worker_dir.join(format!("expect-{name}/in.idx"))).unwrap_or_default();
                                    let got_idx = std::fs::read(&ip).unwrap_or_default();
                                    if got_idx != want_idx {
                                        rep.violate(P, format!("pack index-differs-from-git {shape}"), format!("{} vs {} bytes; first difference at {:?}", got_idx.len(), want_idx.len(), got_idx.iter().zip(want_idx.iter()).position(|(a, b)| a != b)));
                                    }
                                    if std::fs::read(&dp).unwrap_or_default() != pack_bytes {
                                        rep.violate(P, format!("pack data-differs-from-stream {shape}"), "stored pack is not the stream".to_string());
                                    }
                                    if n as usize != ids.len() {
                                        rep.violate(P, format!("pack object-count {shape}"), format!("{n} objects, git counts {}", ids.len()));
                                    }
                                }
                                if rep.violations.is_empty() {
                                    if let Err(e) = decode_all(&dp, &ids, &uni) {
                                        rep.violate(P, format!("pack object-not-retrievable {shape}"), e);
                                    }
                                }
                            }
                            other => rep.violate(P, format!("pack no-paths {shape}"), format!("{other:?}")),
                        }
                        if !others.is_empty() && rep.violations.is_empty() {
                            rep.violate(P, format!("pack tempfile-left-behind {shape}"), format!("{others:?} after success"));
                        }
                        if pairs.len() != 1 && rep.violations.is_empty() {
                            rep.violate(P, format!("pack pair-count {shape}"), format!("{pairs:?}"));
                        }
                    }
                }
            }
            // crash points: no pair, or a complete valid one
            if w.crash_points && rep.violations.is_empty() {
                let final_pack = std::fs::read_dir(&dir).ok().and_then(|rd| rd.flatten().map(|e| e.path()).find(|p| p.extension().map_or(false, |x| x == "pack")));
                let final_bytes = final_pack.as_ref().and_then(|p| std::fs::read(p).ok());
                let final_idx = final_pack.as_ref().and_then(|p| std::fs::read(p.with_extension("idx")).ok());
                for s in &fs.snaps {
                    rep.crash_points += 1;
                    let sdir = s.dir.join("pack");
                    let (pairs, _) = pairs_in(&sdir);
                    for p in pairs {
                        let pb = std::fs::read(sdir.join(format!("{p}.pack"))).unwrap_or_default();
                        let ib = std::fs::read(sdir.join(format!("{p}.idx"))).unwrap_or_default();
                        if Some(&pb) != final_bytes.as_ref() || Some(&ib) != final_idx.as_ref() {
                            rep.violate(P, format!("pack crash-leaves-incomplete-pair {shape}"), format!("process death before fs mutation {} ({}): pair {p} exists but is not the complete pack/index", s.k, s.label));
                            break;
                        }
                    }
                    if !rep.violations.is_empty() {
                        break;
                    }
                }
            }
        }
        if w.plan.eof_at.is_some() {
            rep.fault("stream-eof");
        }
        if w.plan.err_at.is_some() {
            rep.fault("stream-error");
        }
        if w.plan.flip_at.is_some() {
            rep.fault("stream-bit-flip");
        }
        if w.plan.max_chunk != 0 {
            rep.fault("stream-chunked");
        }
        if w.count_fault != 0 {
            rep.fault(["", "header-count-zero", "header-count-minus-one", "header-count-plus-one"][w.count_fault as usize]);
        }
        rep.ops = 1;
        rep.nontrivial = true;
        let st = Fnv::of(format!("{shape} mode={} cap={}", w.mode, w.bufread_cap).as_bytes());
        rep.states.push(st);
        rep.log_hash ^= st ^ rep.violations.len() as u64;
        rep.summary = format!("{shape} mode={} cap={} plan={:?} crash_points={} threads_seen={}", w.mode, w.bufread_cap, w.plan, w.crash_points, o.threads);
        rep
    }
    fn shrink(&self, wv: &Value) -> Vec<Value> {
        let w: Workload = match serde_json::from_value(wv.clone()) {
            Ok(w) => w,
            Err(_) => return vec![],
        };
        let mut out = vec![];
        if w.thread_limit > 1 {
            let mut c = w.clone();
            c.thread_limit = 1;
            out.push(c);
            let mut c = w.clone();
            c.thread_limit = 2;
            out.push(c);
        }
        if w.pack != 4 {
            let mut c = w.clone();
            c.pack = 4;
            out.push(c);
        }
        for f in [|c: &mut Workload| c.plan.max_chunk = 0, |c: &mut Workload| c.plan.intr_permille = 0, |c: &mut Workload| c.bufread_cap = 65_536, |c: &mut Workload| c.crash_points = false] {
            let mut c = w.clone();
            f(&mut c);
            out.push(c);
        }
        out.into_iter().map(|c| serde_json::to_value(c).unwrap()).collect()
    }
    fn rule(&self, _p: &str) -> String {
        "6 packs made by git pack-objects (full with ref-deltas, full with ofs-deltas, full without deltas, thin against a base repository, small, thin over a wide history of 45 trees per commit where inserted bases push ofs-delta distances across the 7-bit encoding boundaries) x thread limits {1,2,3,4,8,16} x iteration modes x BufRead capacities x stream plans (chunking, Interrupted; EOF / error / bit flip at an offset biased to header, trailer and middle) x crash points at every file-system mutation x seeded thread schedules; non-trivial = every run; distinct = distinct (workload, decision list)".into()
    }
    fn real_stub(&self) -> Value {
        json!({
            "real": ["gix_pack::Bundle::write_to_directory (BytesToEntriesIter, LookupRefDeltaObjectsIter, index::File::write_data_iter_to_stream, delta tree traversal with work stealing)", "gix-features parallel helpers", "gix-tempfile", "gix-odb handle on the thin pack's base repository", "git pack-objects / index-pack / verify-pack / cat-file as fixture factory and oracle"],
            "simulated": ["stream source (chunking, Interrupted, EOF, error, bit flip), thread scheduling incl. basic-block pre-emption in gix-pack/gix-features, 50/100 ms poll loops on the simulated clock, file-system call order and crash points"],
            "stub": [],
        })
    }
    fn assumptions(&self, _p: &str) -> Vec<String> {
        vec!["the header's object count is trusted for pre-allocation (bit flips in its two high bytes are not injected: the failed multi-GB allocation aborts the process)".into(), "packs with ref-deltas are re-written by the receiver (ref-delta -> ofs-delta), so for them, as for thin packs, index bytes cannot equal git's; byte identity is asserted for the ofs-delta and delta-free packs".into(), "the stream is chunked but not Interrupted: the pack parser reads through BufRead::fill_buf and does not retry Interrupted (observation, not part of the statement)".into(), "thin packs: gitoxide inserts the base objects in front of their deltas while git appends them, so offsets differ by design; the oracle compares the object set and every object's decoded bytes instead of index bytes".into(), "destructive faults use Mode::Verify (Restore deliberately accepts damaged tails)".into()]
    }
}
