//! refstore — C16 (transactions vs. name→value model), C18 (lookup/iteration), C17 (termination under lock
//! contention), C20 (crash consistency at every file-system mutation). One scenario, four oracles (DESIGN §4, App. A).
use crate::driver::{ExecCtx, Report, Scenario, Tier, Violation};
use crate::fsx;
use crate::prng::{Fnv, Rng, STREAM_SWARM, STREAM_WORKLOAD};
use crate::rt;
use bstr::ByteSlice;
use gix_hash::ObjectId;
use gix_ref::transaction::{Change, LogChange, PreviousValue, RefEdit, RefLog};
use gix_ref::{file, FullName, Target};
use serde::{Deserialize, Serialize};
use serde_json::{json, Value};
use std::collections::{BTreeMap, BTreeSet};
use std::path::{Path, PathBuf};

pub struct RefStore;

pub const NAMES: &[&str] = &[
    "HEAD",
    "refs/heads/main",
    "refs/heads/a-b",
    "refs/heads/a.b",
    "refs/heads/a/b",
    "refs/heads/a0",
    "refs/heads/a/c-d",
    "refs/heads/t",
    "refs/heads/sym",
    "refs/tags/t",
    "refs/tags/t-1",
    "refs/remotes/o/HEAD",
    "refs/remotes/o/main",
    "refs/notes/x",
];
/// names that may be symbolic (never a symbolic target) and names symbolic refs may point to (never made symbolic)
const SYM_SOURCES: &[&str] = &["HEAD", "refs/remotes/o/HEAD", "refs/heads/sym"];
const SYM_TARGETS: &[&str] = &["refs/heads/main", "refs/heads/a/b", "refs/remotes/o/main", "refs/tags/t"];
const SHORT_NAMES: &[&str] = &["main", "t", "o", "a/b", "heads/main", "tags/t-1", "HEAD", "a-b", "heads/t", "remotes/o/main", "sym", "x", "notes/x", "o/main", "t-1", "a0"];
/// Only prefixes for which "directory" and "file-name prefix" readings of `prefixed()` select the same names: the API
/// documents `refs/heads` == `refs/heads/` and falls back to file-name-prefix matching when the directory does not
/// exist, so `refs/heads/a/` may legitimately select `refs/heads/a0` (DESIGN §4, C18 false-alarm note).
const PREFIXES: &[&str] = &["refs/", "refs/heads/", "refs/tags/", "refs/remotes/", "refs/remotes/o/", "refs/notes/"];
const N_OBJ: usize = 8;

// ---------------------------------------------------------------------------------------------------------------
// workload

#[derive(Clone, Debug, Serialize, Deserialize, PartialEq, Eq, PartialOrd, Ord)]
pub enum Tgt {
    Obj(usize),
    Sym(String),
}
#[derive(Clone, Debug, Serialize, Deserialize, PartialEq)]
pub enum Exp {
    Any,
    MustExist,
    MustNotExist,
    MustExistAndMatch(Tgt),
    ExistingMustMatch(Tgt),
}
#[derive(Clone, Debug, Serialize, Deserialize, PartialEq)]
pub struct Ed {
    pub name: String,
    /// None = delete
    pub new: Option<Tgt>,
    pub exp: Exp,
    pub log_only: bool,
    pub force_log: bool,
    pub deref: bool,
}
#[derive(Clone, Debug, Serialize, Deserialize, PartialEq)]
pub enum Op {
    Tx { edits: Vec<Ed>, packed: u8, backoff_ms: Option<u64>, commit: bool },
    GitUpdate { name: String, obj: usize },
    GitSymref { name: String, target: String },
    GitDelete { name: String },
    GitPackRefs { prune: bool },
    Reopen,
    /// C17: another party holds these lock files; `release_after_ms` = a second sim thread removes them later
    HoldLocks {
        paths: Vec<String>,
        release_after_ms: Option<u64>,
        /// the holders change while we wait: every `period` ms the lock files are released and immediately re-taken
        /// (new mtime), for `total` ms; the resource stays locked throughout
        #[serde(default)]
        churn_ms: Option<(u64, u64)>,
    },
    ReleaseLocks,
}
#[derive(Clone, Debug, Serialize, Deserialize)]
pub struct Workload {
    pub init: Vec<(String, Tgt)>,
    pub ops: Vec<Op>,
    pub reflog: u8, // 0 disable, 1 normal, 2 always
    pub fs: fsx::FsCfg,
    pub git_every: u32,
    pub sched: Value,
}

// ---------------------------------------------------------------------------------------------------------------
// objects (content-addressed, hence identical in every process)

pub struct Objects {
    pub ids: Vec<ObjectId>,
    pub data: BTreeMap<ObjectId, (gix_object::Kind, Vec<u8>)>,
}
fn hash_obj(kind: gix_object::Kind, data: &[u8]) -> ObjectId {
    gix_object::compute_hash(gix_hash::Kind::Sha1, kind, data)
}
pub fn objects() -> Objects {
    let mut ids = vec![];
    let mut data = BTreeMap::new();
    let empty_tree = hash_obj(gix_object::Kind::Tree, b"");
    data.insert(empty_tree, (gix_object::Kind::Tree, vec![]));
    for i in 0..6 {
        let body = format!("tree {empty_tree}\nauthor A <a@example.com> 1700000000 +0000\ncommitter A <a@example.com> 1700000000 +0000\n\nc{i}\n");
        let id = hash_obj(gix_object::Kind::Commit, body.as_bytes());
        data.insert(id, (gix_object::Kind::Commit, body.into_bytes()));
        ids.push(id);
    }
    let t0 = format!("object {}\ntype commit\ntag t0\ntagger A <a@example.com> 1700000000 +0000\n\nt0\n", ids[0]);
    let t0id = hash_obj(gix_object::Kind::Tag, t0.as_bytes());
    data.insert(t0id, (gix_object::Kind::Tag, t0.into_bytes()));
    ids.push(t0id);
    let t1 = format!("object {t0id}\ntype tag\ntag t1\ntagger A <a@example.com> 1700000000 +0000\n\nt1\n");
    let t1id = hash_obj(gix_object::Kind::Tag, t1.as_bytes());
    data.insert(t1id, (gix_object::Kind::Tag, t1.into_bytes()));
    ids.push(t1id);
    Objects { ids, data }
}
/// In-memory `Find` stub (a seam the API offers) with a fault switch.
pub struct MemFind {
    pub data: BTreeMap<ObjectId, (gix_object::Kind, Vec<u8>)>,
    pub fail: std::sync::atomic::AtomicBool,
}
impl gix_object::Find for MemFind {
    fn try_find<'a>(&self, id: &gix_hash::oid, buffer: &'a mut Vec<u8>) -> Result<Option<gix_object::Data<'a>>, gix_object::find::Error> {
        if self.fail.load(std::sync::atomic::Ordering::SeqCst) {
            return Err("injected object lookup failure".into());
        }
        match self.data.get(&id.to_owned()) {
            Some((k, d)) => {
                buffer.clear();
                buffer.extend_from_slice(d);
                Ok(Some(gix_object::Data { kind: *k, data: buffer }))
            }
            None => Ok(None),
        }
    }
}

// ---------------------------------------------------------------------------------------------------------------
// model (Appendix A)

pub type Model = BTreeMap<String, Tgt>;

#[derive(Clone, Debug)]
struct EffEdit {
    name: String,
    new: Option<Tgt>,
    exp: Exp,
    log_only: bool,
}
fn exp_holds(exp: &Exp, cur: Option<&Tgt>, new: Option<&Tgt>) -> bool {
    match (exp, cur, new) {
        // updates
        (Exp::Any, _, Some(_)) => true,
        (Exp::MustExist, c, Some(_)) => c.is_some(),
        (Exp::MustNotExist, None, Some(_)) => true,
        (Exp::MustNotExist, Some(c), Some(n)) => c == n,
        (Exp::MustExistAndMatch(v), c, Some(_)) => c == Some(v),
        (Exp::ExistingMustMatch(v), c, Some(_)) => c.map_or(true, |c| c == v),
        // deletes
        (Exp::Any, _, None) => true,
        (Exp::MustExist, c, None) => c.is_some(),
        (Exp::MustExistAndMatch(v), c, None) => c == Some(v),
        (Exp::ExistingMustMatch(v), c, None) => c.map_or(true, |c| c == v),
        (Exp::MustNotExist, _, None) => false, // never generated (documented BUG panic)
    }
}
/// Evaluate a transaction on the model: Ok(effective edits) if it must be applicable, Err(reason) if it must fail.
fn model_tx(m: &Model, edits: &[Ed]) -> Result<Vec<EffEdit>, String> {
    #[derive(Clone)]
    struct W {
        name: String,
        new: Option<Tgt>,
        exp: Exp,
        log_only: bool,
        deref: bool,
    }
    let mut list: Vec<W> = edits.iter().map(|e| W { name: e.name.clone(), new: e.new.clone(), exp: e.exp.clone(), log_only: e.log_only, deref: e.deref }).collect();
    let mut first = 0;
    let mut round = 1;
    loop {
        let mut new_edits = vec![];
        for e in list[first..].iter_mut() {
            if !e.deref {
                continue;
            }
            e.deref = false;
            if let Some(Tgt::Sym(referent)) = m.get(&e.name) {
                let orig_log_only = e.log_only;
                e.log_only = true;
                let exp = if e.new.is_some() { std::mem::replace(&mut e.exp, Exp::Any) } else { e.exp.clone() };
                new_edits.push(W { name: referent.clone(), new: e.new.clone(), exp, log_only: orig_log_only, deref: true });
            }
        }
        if new_edits.is_empty() {
            break;
        }
        if round == 5 {
            return Err("cycle".into());
        }
        round += 1;
        first = list.len();
        list.append(&mut new_edits);
    }
    let mut names: Vec<&String> = list.iter().map(|e| &e.name).collect();
    names.sort();
    if names.windows(2).any(|w| w[0] == w[1]) {
        return Err("duplicate".into());
    }
    for e in &list {
        if !exp_holds(&e.exp, m.get(&e.name), e.new.as_ref()) {
            return Err(format!("expectation {:?} on {}", e.exp, e.name));
        }
    }
    Ok(list.into_iter().map(|e| EffEdit { name: e.name, new: e.new, exp: e.exp, log_only: e.log_only }).collect())
}
fn model_apply(m: &mut Model, eff: &[EffEdit]) {
    for e in eff {
        if e.log_only {
            continue;
        }
        match &e.new {
            Some(t) => {
                m.insert(e.name.clone(), t.clone());
            }
            None => {
                m.remove(&e.name);
            }
        }
    }
}

// ---------------------------------------------------------------------------------------------------------------
// helpers around the real store

fn to_target(t: &Tgt, o: &Objects) -> Target {
    match t {
        Tgt::Obj(i) => Target::Object(o.ids[*i]),
        Tgt::Sym(n) => Target::Symbolic(FullName::try_from(n.as_str()).expect("valid name")),
    }
}
fn from_target(t: &Target, o: &Objects) -> Tgt {
    match t {
        Target::Object(id) => Tgt::Obj(o.ids.iter().position(|x| x == id).unwrap_or(usize::MAX)),
        Target::Symbolic(n) => Tgt::Sym(n.as_bstr().to_string()),
    }
}
fn to_prev(e: &Exp, o: &Objects) -> PreviousValue {
    match e {
        Exp::Any => PreviousValue::Any,
        Exp::MustExist => PreviousValue::MustExist,
        Exp::MustNotExist => PreviousValue::MustNotExist,
        Exp::MustExistAndMatch(t) => PreviousValue::MustExistAndMatch(to_target(t, o)),
        Exp::ExistingMustMatch(t) => PreviousValue::ExistingMustMatch(to_target(t, o)),
    }
}
fn to_edit(e: &Ed, o: &Objects) -> RefEdit {
    let mode = if e.log_only { RefLog::Only } else { RefLog::AndReference };
    let change = match &e.new {
        Some(t) => Change::Update { log: LogChange { mode, force_create_reflog: e.force_log, message: "gixsim".into() }, expected: to_prev(&e.exp, o), new: to_target(t, o) },
        None => Change::Delete { expected: to_prev(&e.exp, o), log: mode },
    };
    RefEdit { change, name: FullName::try_from(e.name.as_str()).expect("valid"), deref: e.deref }
}
fn open_store(git_dir: &Path, reflog: u8) -> file::Store {
    file::Store::at(
        git_dir.to_owned(),
        gix_ref::store::init::Options {
            write_reflog: match reflog {
                0 => gix_ref::store::WriteReflog::Disable,
                1 => gix_ref::store::WriteReflog::Normal,
                _ => gix_ref::store::WriteReflog::Always,
            },
            object_hash: gix_hash::Kind::Sha1,
            precompose_unicode: false,
            prohibit_windows_device_names: false,
        },
    )
}
/// Everything the store reports through lookups of all names of the name space.
fn observe_find(store: &file::Store, o: &Objects) -> Result<Model, String> {
    let mut m = Model::new();
    for n in NAMES {
        match store.try_find(*n) {
            Ok(Some(r)) => {
                if r.name.as_bstr() != n.as_bytes().as_bstr() {
                    return Err(format!("lookup of {n} returned a reference named {}", r.name.as_bstr()));
                }
                m.insert(n.to_string(), from_target(&r.target, o));
            }
            Ok(None) => {}
            Err(e) => return Err(format!("lookup of {n} failed: {e}")),
        }
    }
    Ok(m)
}
fn observe_iter(store: &file::Store, prefix: Option<&str>, o: &Objects) -> Result<Vec<(String, Tgt)>, String> {
    let p = store.iter().map_err(|e| format!("iter(): {e}"))?;
    let it = match prefix {
        None => p.all(),
        Some(px) => p.prefixed(Path::new(px)),
    }
    .map_err(|e| format!("iter {prefix:?}: {e}"))?;
    let mut v = vec![];
    for r in it {
        match r {
            Ok(r) => v.push((r.name.as_bstr().to_string(), from_target(&r.target, o))),
            Err(e) => return Err(format!("iteration item error: {e}")),
        }
    }
    Ok(v)
}
fn lock_files(dir: &Path, out: &mut Vec<String>, root: &Path) {
    if let Ok(rd) = std::fs::read_dir(dir) {
        for e in rd.flatten() {
            let p = e.path();
            let ft = match e.file_type() {
                Ok(f) => f,
                Err(_) => continue,
            };
            if ft.is_symlink() {
                continue;
            }
            if ft.is_dir() {
                if e.file_name() != "objects" {
                    lock_files(&p, out, root);
                }
            } else if p.extension().map_or(false, |x| x == "lock") {
                out.push(p.strip_prefix(root).unwrap().to_string_lossy().into_owned());
            }
        }
    }
}
fn list_files(dir: &Path, out: &mut BTreeSet<String>, root: &Path) {
    if let Ok(rd) = std::fs::read_dir(dir) {
        for e in rd.flatten() {
            let p = e.path();
            let ft = match e.file_type() {
                Ok(f) => f,
                Err(_) => continue,
            };
            if ft.is_symlink() {
                continue;
            }
            if ft.is_dir() {
                list_files(&p, out, root);
            } else {
                out.insert(p.strip_prefix(root).unwrap().to_string_lossy().into_owned());
            }
        }
    }
}

fn git(git_dir: &Path, args: &[&str]) -> Result<String, String> {
    let out = std::process::Command::new("git")
        .args(args)
        .env_clear()
        .env("PATH", "/usr/bin:/bin:/usr/local/bin")
        .env("GIT_DIR", git_dir)
        .env("GIT_CONFIG_NOSYSTEM", "1")
        .env("GIT_CONFIG_GLOBAL", "/dev/null")
        .env("HOME", "/nonexistent")
        .env("GIT_COMMITTER_NAME", "G")
        .env("GIT_COMMITTER_EMAIL", "g@example.com")
        .env("GIT_COMMITTER_DATE", "1700000001 +0000")
        .env("GIT_AUTHOR_NAME", "G")
        .env("GIT_AUTHOR_EMAIL", "g@example.com")
        .env("GIT_AUTHOR_DATE", "1700000001 +0000")
        .env("TZ", "UTC")
        .env("LC_ALL", "C")
        .output()
        .map_err(|e| format!("spawn git: {e}"))?;
    if !out.status.success() {
        return Err(format!("git {args:?}: {}", String::from_utf8_lossy(&out.stderr)));
    }
    Ok(String::from_utf8_lossy(&out.stdout).into_owned())
}
/// Files written by the git child carry kernel timestamps; give them simulated ones (strictly increasing).
fn restamp(dir: &Path, next_ns: &mut u64) {
    if let Ok(rd) = std::fs::read_dir(dir) {
        for e in rd.flatten() {
            let p = e.path();
            let md = match std::fs::symlink_metadata(&p) {
                Ok(m) => m,
                Err(_) => continue,
            };
            if md.file_type().is_symlink() {
                continue;
            }
            if md.is_dir() {
                restamp(&p, next_ns);
            }
            use std::os::unix::fs::MetadataExt;
            if md.mtime() > (rt::REAL_BASE_S + 86_400 * 365) as i64 {
                *next_ns += 1_000_000;
                let ts = libc::timespec { tv_sec: (rt::REAL_BASE_S + *next_ns / 1_000_000_000) as i64, tv_nsec: (*next_ns % 1_000_000_000) as i64 };
                let c = std::ffi::CString::new(p.as_os_str().as_encoded_bytes()).unwrap();
                unsafe {
                    libc::utimensat(libc::AT_FDCWD, c.as_ptr(), [ts, ts].as_ptr(), libc::AT_SYMLINK_NOFOLLOW);
                }
            }
        }
    }
}
fn git_mut(git_dir: &Path, args: &[&str]) -> Result<String, String> {
    let r = rt::bypass(|| git(git_dir, args));
    // continue the simulated clock past everything git wrote
    rt::advance_clock(50_000_000);
    let mut ns = rt::now_ns();
    rt::bypass(|| restamp(git_dir, &mut ns));
    let adv = ns.saturating_sub(rt::now_ns());
    rt::advance_clock(adv + 1_000_000);
    r
}
/// git's view of the ref store: for-each-ref plus the three possibly-symbolic names.
fn observe_git(git_dir: &Path, o: &Objects) -> Result<Vec<(String, Tgt)>, String> {
    let out = rt::bypass(|| git(git_dir, &["for-each-ref", "--format=%(refname) %(objectname) %(symref)"]))?;
    let mut v = vec![];
    for l in out.lines() {
        let mut it = l.split(' ');
        let name = it.next().unwrap_or("").to_string();
        let id = it.next().unwrap_or("");
        let sym = it.next().unwrap_or("");
        let t = if !sym.is_empty() {
            Tgt::Sym(sym.to_string())
        } else {
            let oid = ObjectId::from_hex(id.as_bytes()).map_err(|e| format!("git printed {l:?}: {e}"))?;
            from_target(&Target::Object(oid), o)
        };
        v.push((name, t));
    }
    Ok(v)
}

// ---------------------------------------------------------------------------------------------------------------
// the run

struct Ctx<'a> {
    prop: &'a str,
    rep: Report,
    o: Objects,
    model: Model,
    states: Vec<u64>,
}
fn name_kind(n: &str) -> &'static str {
    if n == "HEAD" {
        "HEAD"
    } else if n.starts_with("refs/heads/") {
        "branch"
    } else if n.starts_with("refs/tags/") {
        "tag"
    } else if n.starts_with("refs/remotes/") {
        "remote"
    } else {
        "other"
    }
}
fn tx_shape(edits: &[Ed], name: &str, packed: u8) -> String {
    match edits.iter().find(|e| e.name == name) {
        Some(e) => format!(
            "change={} deref={} packed={packed}",
            match &e.new {
                Some(Tgt::Obj(_)) => "update-obj",
                Some(Tgt::Sym(_)) => "update-sym",
                None => "delete",
            },
            e.deref as u8
        ),
        None => format!("change=indirect packed={packed}"),
    }
}
fn model_hash(m: &Model) -> u64 {
    let mut f = Fnv::default();
    for (k, v) in m {
        f.write(k.as_bytes());
        f.write(format!("{v:?}").as_bytes());
    }
    f.0
}

fn diff_models(a: &Model, b: &Model) -> Option<(String, Option<Tgt>, Option<Tgt>)> {
    let keys: BTreeSet<&String> = a.keys().chain(b.keys()).collect();
    for k in keys {
        if a.get(k) != b.get(k) {
            return Some((k.clone(), a.get(k).cloned(), b.get(k).cloned()));
        }
    }
    None
}

/// C16 + C18 observation after a step. `shape` describes the step for signatures.
fn observe_step(c: &mut Ctx, store: &file::Store, git_dir: &Path, reflog: u8, step: usize, what: &str, edits: &[Ed], packed: u8, use_git: bool, foreign_locks: &BTreeSet<String>) {
    let o = &c.o;
    let want16 = c.prop == "C16";
    let want18 = c.prop == "C18";
    // (a) long-lived store, lookups
    match observe_find(store, o) {
        Ok(seen) => {
            if let Some((name, got, exp)) = diff_models(&seen, &c.model) {
                if want16 {
                    c.rep.violate(
                        "C16",
                        format!("refstore C16 store!=model name-kind={} {} | {what}", name_kind(&name), tx_shape(edits, &name, packed)),
                        format!("step {step} ({what}): {name} reads {got:?}, model says {exp:?}"),
                    );
                }
            }
        }
        Err(e) => {
            if want16 {
                c.rep.violate("C16", format!("refstore C16 lookup-error | {what}"), format!("step {step}: {e}"));
            }
        }
    }
    // (b) cold store
    let cold = open_store(git_dir, reflog);
    if let Ok(seen) = observe_find(&cold, o) {
        if let Some((name, got, exp)) = diff_models(&seen, &c.model) {
            if want16 {
                c.rep.violate(
                    "C16",
                    format!("refstore C16 cold-store!=model name-kind={} {} | {what}", name_kind(&name), tx_shape(edits, &name, packed)),
                    format!("step {step} ({what}): {name} reads {got:?} in a fresh store, model says {exp:?}"),
                );
            }
        }
    }
    // (c) iteration: every model name under refs/ exactly once, ascending, loose value wins
    let expect_all: Vec<(String, Tgt)> = c.model.iter().filter(|(k, _)| k.starts_with("refs/")).map(|(k, v)| (k.clone(), v.clone())).collect();
    for (sname, st) in [("long-lived", store), ("cold", &cold)] {
        match observe_iter(st, None, o) {
            Ok(got) => {
                if got != expect_all {
                    let mut sorted = got.clone();
                    sorted.sort();
                    let clause = if sorted == expect_all {
                        "iter-order"
                    } else {
                        let names: Vec<&String> = got.iter().map(|x| &x.0).collect();
                        let mut dedup = names.clone();
                        dedup.sort();
                        dedup.dedup();
                        if dedup.len() != names.len() {
                            "iter-duplicate"
                        } else {
                            "iter-content"
                        }
                    };
                    if want18 {
                        c.rep.violate("C18", format!("refstore C18 {clause} | all {sname}"), format!("step {step} ({what}): iter().all() = {got:?}, expected {expect_all:?}"));
                    } else if want16 && clause == "iter-content" {
                        c.rep.violate("C16", format!("refstore C16 iter!=model | {what}"), format!("step {step} ({what}): iter().all() = {got:?}, expected {expect_all:?}"));
                    }
                }
            }
            Err(e) => {
                if want18 {
                    c.rep.violate("C18", format!("refstore C18 iter-error | {sname}"), format!("step {step}: {e}"));
                }
            }
        }
    }
    if want18 {
        for px in PREFIXES {
            let exp: Vec<(String, Tgt)> = expect_all.iter().filter(|(k, _)| k.starts_with(px)).cloned().collect();
            match observe_iter(store, Some(px), o) {
                Ok(got) => {
                    if got != exp {
                        let mut sorted = got.clone();
                        sorted.sort();
                        let clause = if sorted == exp { "prefixed-order" } else { "prefixed-content" };
                        c.rep.violate("C18", format!("refstore C18 {clause} prefix={px}"), format!("step {step} ({what}): prefixed({px}) = {got:?}, expected {exp:?}"));
                    }
                }
                Err(e) => c.rep.violate("C18", format!("refstore C18 prefixed-error prefix={px}"), format!("step {step}: {e}")),
            }
        }
        // short names: git's DWIM rule list
        for sn in SHORT_NAMES {
            let rules = [sn.to_string(), format!("refs/{sn}"), format!("refs/tags/{sn}"), format!("refs/heads/{sn}"), format!("refs/remotes/{sn}"), format!("refs/remotes/{sn}/HEAD")];
            let exp = rules.iter().find_map(|r| c.model.get(r).map(|t| (r.clone(), t.clone())));
            match store.try_find(*sn) {
                Ok(got) => {
                    let got = got.map(|r| (r.name.as_bstr().to_string(), from_target(&r.target, o)));
                    if got != exp {
                        c.rep.violate("C18", format!("refstore C18 short-name short={sn}"), format!("step {step} ({what}): try_find({sn}) = {got:?}, git's rules give {exp:?}"));
                    }
                }
                Err(e) => c.rep.violate("C18", format!("refstore C18 short-name-error short={sn}"), format!("step {step}: {e}")),
            }
        }
    }
    // (d) git as second observer
    if use_git {
        c.rep.probe("git-observed");
        match observe_git(git_dir, o) {
            Ok(got) => {
                // git omits dangling symbolic refs; the property text is silent on them, so is the oracle
                let resolves = |v: &Tgt| -> bool {
                    let mut at = Some(v.clone());
                    for _ in 0..6 {
                        match at {
                            Some(Tgt::Sym(t)) => at = c.model.get(&t).cloned(),
                            Some(Tgt::Obj(_)) => return true,
                            None => return false,
                        }
                    }
                    false
                };
                // git prints the end of a symbolic chain in %(symref) (it recurses)
                let chain_end = |v: &Tgt| -> Tgt {
                    let mut cur = v.clone();
                    for _ in 0..6 {
                        match &cur {
                            Tgt::Sym(t) => match c.model.get(t) {
                                Some(n @ Tgt::Sym(_)) => cur = n.clone(),
                                _ => break,
                            },
                            Tgt::Obj(_) => break,
                        }
                    }
                    cur
                };
                let exp: Vec<(String, Tgt)> = expect_all.iter().filter(|(_, v)| resolves(v)).map(|(k, v)| (k.clone(), chain_end(v))).collect();
                if got != exp {
                    let p = if want18 { "C18" } else { "C16" };
                    if want16 || want18 {
                        c.rep.violate(p, format!("refstore {p} git!=model | {what}"), format!("step {step} ({what}): git for-each-ref = {got:?}, model {exp:?}"));
                    }
                }
                if want16 {
                    let head = rt::bypass(|| git(git_dir, &["symbolic-ref", "-q", "--no-recurse", "HEAD"])).ok().map(|s| s.trim().to_string());
                    let exp_head = match c.model.get("HEAD") {
                        Some(Tgt::Sym(t)) => Some(t.clone()),
                        _ => None,
                    };
                    if head.filter(|h| !h.is_empty()) != exp_head {
                        c.rep.violate("C16", format!("refstore C16 git-HEAD!=model | {what}"), format!("step {step}: git symbolic-ref HEAD disagrees with model {exp_head:?}"));
                    }
                }
            }
            Err(e) => {
                let not_repo = e.contains("not a git repository");
                if not_repo {
                    c.rep.probe("git-refused-directory");
                }
                // C18 compares lists; when git prints none there is nothing to compare (C16 owns that finding)
                if want16 || (want18 && !not_repo) {
                    let p = if want18 { "C18" } else { "C16" };
                    let kind = if not_repo { "not-a-git-repository" } else { "other" };
                    c.rep.violate(p, format!("refstore {p} git-cannot-read {kind} | {what}"), format!("step {step} ({what}): {e}"));
                }
            }
        }
    }
    // (e) no lock files of ours
    let mut locks = vec![];
    lock_files(git_dir, &mut locks, git_dir);
    locks.retain(|l| !foreign_locks.contains(l));
    if !locks.is_empty() && want16 {
        c.rep.violate("C16", format!("refstore C16 lock-left-behind | {what}"), format!("step {step} ({what}): {locks:?}"));
    }
    c.states.push(model_hash(&c.model));
}

struct TxOutcome {
    result: Result<(), String>,
    phase: &'static str,
    sim_ns: u64,
}
fn run_tx(store: &file::Store, o: &Objects, find: &std::sync::Arc<MemFind>, edits: &[Ed], packed: u8, backoff_ms: Option<u64>, commit: bool) -> TxOutcome {
    let t0 = rt::now_ns();
    let fail = match backoff_ms {
        None => gix_lock::acquire::Fail::Immediately,
        Some(ms) => gix_lock::acquire::Fail::AfterDurationWithBackoff(std::time::Duration::from_millis(ms)),
    };
    struct F(std::sync::Arc<MemFind>);
    impl gix_object::Find for F {
        fn try_find<'a>(&self, id: &gix_hash::oid, buffer: &'a mut Vec<u8>) -> Result<Option<gix_object::Data<'a>>, gix_object::find::Error> {
            self.0.try_find(id, buffer)
        }
    }
    let mode = match packed {
        0 => file::transaction::PackedRefs::DeletionsOnly,
        1 => file::transaction::PackedRefs::DeletionsAndNonSymbolicUpdates(Box::new(F(find.clone()))),
        _ => file::transaction::PackedRefs::DeletionsAndNonSymbolicUpdatesRemoveLooseSourceReference(Box::new(F(find.clone()))),
    };
    let redits: Vec<RefEdit> = edits.iter().map(|e| to_edit(e, o)).collect();
    let sig = gix_actor::SignatureRef { name: "S".into(), email: "s@example.com".into(), time: gix_date::Time { seconds: 1_700_000_002, offset: 0, sign: gix_date::time::Sign::Plus } };
    let prepared = store.transaction().packed_refs(mode).prepare(redits, fail, fail);
    match prepared {
        Err(e) => TxOutcome { result: Err(format!("prepare: {e}")), phase: "prepare", sim_ns: rt::now_ns() - t0 },
        Ok(t) => {
            if commit {
                match t.commit(sig) {
                    Ok(_) => TxOutcome { result: Ok(()), phase: "commit", sim_ns: rt::now_ns() - t0 },
                    Err(e) => TxOutcome { result: Err(format!("commit: {e}")), phase: "commit", sim_ns: rt::now_ns() - t0 },
                }
            } else {
                drop(t);
                TxOutcome { result: Err("dropped".into()), phase: "dropped", sim_ns: rt::now_ns() - t0 }
            }
        }
    }
}

fn write_loose_raw(git_dir: &Path, name: &str, t: &Tgt, o: &Objects) {
    let p = git_dir.join(name);
    std::fs::create_dir_all(p.parent().unwrap()).unwrap();
    let content = match t {
        Tgt::Obj(i) => format!("{}\n", o.ids[*i]),
        Tgt::Sym(n) => format!("ref: {n}\n"),
    };
    std::fs::write(p, content).unwrap();
}

/// Executed as the root sim thread.
fn history(w: Workload, prop: String, git_dir: PathBuf, out: std::sync::Arc<std::sync::Mutex<Option<(Report, Vec<u64>, Vec<TxInfo>)>>>) {
    let o = objects();
    let find = std::sync::Arc::new(MemFind { data: o.data.clone(), fail: Default::default() });
    let mut c = Ctx { prop: &prop, rep: Report::default(), o, model: Model::new(), states: vec![] };
    // initial state (written through the layer so that it is stamped)
    for (n, t) in &w.init {
        fsx::without_faults(|| write_loose_raw(&git_dir, n, t, &c.o));
        c.model.insert(n.clone(), t.clone());
    }
    let mut store = open_store(&git_dir, w.reflog);
    let mut foreign: BTreeSet<String> = BTreeSet::new();
    let mut txinfo: Vec<TxInfo> = vec![];
    let faulted = w.fs.enospc_permille > 0 || w.fs.eio_permille > 0 || w.fs.emfile_permille > 0;
    let mut releaser: Option<std::thread::JoinHandle<()>> = None;
    for (step, op) in w.ops.iter().enumerate() {
        let use_git = w.git_every > 0 && ((step + 1) as u32 % w.git_every == 0 || step + 1 == w.ops.len());
        match op {
            Op::Tx { edits, packed, backoff_ms, commit } => {
                let verdict = model_tx(&c.model, edits);
                let pre = c.model.clone();
                let packed_before = std::fs::read(git_dir.join("packed-refs")).ok();
                let mut files_before = BTreeSet::new();
                rt::bypass(|| list_files(&git_dir, &mut files_before, &git_dir));
                fsx::set_phase(Some(format!("tx{step}")));
                let ev0 = fsx::events_len();
                let cpu0 = std::time::Instant::now();
                let res = run_tx(&store, &c.o, &find, edits, *packed, *backoff_ms, *commit);
                let _ = cpu0;
                fsx::set_phase(None);
                let faults_in_tx = rt::rt_opt().map_or(0, |r| r.faults_fired.values().sum::<u64>());
                let ok = res.result.is_ok();
                let what = format!("tx {} {}", if ok { "ok" } else { res.phase }, edits.iter().map(|e| format!("{}{}", name_kind(&e.name), if e.deref { "*" } else { "" })).collect::<Vec<_>>().join(","));
                c.rep.ops += 1;
                if ok {
                    c.rep.probe("tx-committed");
                    match &verdict {
                        Ok(eff) => model_apply(&mut c.model, eff),
                        Err(reason) => {
                            if prop == "C16" {
                                c.rep.violate(
                                    "C16",
                                    format!("refstore C16 accepted-but-model-rejects reason={} packed={packed}", reason.split(' ').next().unwrap_or("")),
                                    format!("step {step}: transaction {edits:?} succeeded but the model says it must fail: {reason}"),
                                );
                            }
                        }
                    }
                } else {
                    c.rep.probe(match res.phase {
                        "prepare" => "tx-prepare-failed",
                        "commit" => "tx-commit-failed",
                        _ => "tx-dropped",
                    });
                    // completeness: fault-free, uncontended class only
                    // (reflog-only edits included since 3b36b5694 made their expectations see packed refs)
                    if res.phase == "prepare" && verdict.is_ok() && foreign.is_empty() && !faulted && prop == "C16" {
                        c.rep.violate(
                            "C16",
                            format!("refstore C16 rejected-but-model-accepts packed={packed} | {}", res.result.as_ref().err().map(|e| e.chars().take(40).collect::<String>()).unwrap_or_default()),
                            format!("step {step}: transaction {edits:?} failed ({:?}) but every expectation holds in the model {:?}", res.result, pre),
                        );
                    }
                    if res.phase == "commit" {
                        // only reachable with injected disk faults: documented as inconsistent-but-operational; resync the model per name (old or new)
                        if !faulted && prop == "C16" {
                            c.rep.violate("C16", "refstore C16 commit-failed-without-fault".to_string(), format!("step {step}: {:?}", res.result));
                        }
                        if let (Ok(eff), Ok(seen)) = (&verdict, observe_find(&open_store(&git_dir, w.reflog), &c.o)) {
                            let mut post = pre.clone();
                            model_apply(&mut post, eff);
                            for n in NAMES {
                                let s = seen.get(*n);
                                if s == pre.get(*n) || s == post.get(*n) {
                                    match s {
                                        Some(v) => {
                                            c.model.insert(n.to_string(), v.clone());
                                        }
                                        None => {
                                            c.model.remove(*n);
                                        }
                                    }
                                }
                            }
                        }
                    }
                }
                let packed_after = std::fs::read(git_dir.join("packed-refs")).ok();
                let mut files_after = BTreeSet::new();
                rt::bypass(|| list_files(&git_dir, &mut files_after, &git_dir));
                txinfo.push(TxInfo {
                    phase: format!("tx{step}"),
                    pre,
                    post: c.model.clone(),
                    packed_before,
                    packed_after,
                    files: files_before.union(&files_after).cloned().collect(),
                    touched: verdict.as_ref().map(|e| e.iter().map(|x| x.name.clone()).collect()).unwrap_or_default(),
                    ok,
                    sim_ns: res.sim_ns,
                    backoff_ms: *backoff_ms,
                    n_edits: edits.len() as u64,
                    shape: format!("packed={packed} {}", edits.iter().map(|e| format!("{}:{}{}", name_kind(&e.name), match &e.new { Some(Tgt::Obj(_)) => "obj", Some(Tgt::Sym(_)) => "sym", None => "del" }, if e.deref { "*" } else { "" })).collect::<Vec<_>>().join(",")),
                    fs_events: (fsx::events_len() - ev0) as u64,
                });
                let _ = faults_in_tx;
                observe_step(&mut c, &store, &git_dir, w.reflog, step, &what, edits, *packed, use_git, &foreign);
            }
            Op::GitUpdate { name, obj } => {
                let id = c.o.ids[*obj].to_string();
                match git_mut(&git_dir, &["update-ref", name, &id]) {
                    Ok(_) => {
                        // update-ref follows symbolic refs
                        let mut n = name.clone();
                        for _ in 0..5 {
                            if let Some(Tgt::Sym(t)) = c.model.get(&n) {
                                n = t.clone();
                            }
                        }
                        c.model.insert(n, Tgt::Obj(*obj));
                        c.rep.probe("foreign-update");
                    }
                    Err(_) => c.rep.probe("foreign-op-refused"),
                }
                c.rep.ops += 1;
                observe_step(&mut c, &store, &git_dir, w.reflog, step, "git update-ref", &[], 0, use_git, &foreign);
            }
            Op::GitSymref { name, target } => {
                match git_mut(&git_dir, &["symbolic-ref", name, target]) {
                    Ok(_) => {
                        c.model.insert(name.clone(), Tgt::Sym(target.clone()));
                        c.rep.probe("foreign-symref");
                    }
                    Err(_) => c.rep.probe("foreign-op-refused"),
                }
                c.rep.ops += 1;
                observe_step(&mut c, &store, &git_dir, w.reflog, step, "git symbolic-ref", &[], 0, use_git, &foreign);
            }
            Op::GitDelete { name } => {
                match git_mut(&git_dir, &["update-ref", "--no-deref", "-d", name]) {
                    Ok(_) => {
                        c.model.remove(name);
                        c.rep.probe("foreign-delete");
                    }
                    Err(_) => c.rep.probe("foreign-op-refused"),
                }
                c.rep.ops += 1;
                observe_step(&mut c, &store, &git_dir, w.reflog, step, "git update-ref -d", &[], 0, use_git, &foreign);
            }
            Op::GitPackRefs { prune } => {
                let args: Vec<&str> = if *prune { vec!["pack-refs", "--all", "--prune"] } else { vec!["pack-refs", "--all", "--no-prune"] };
                match git_mut(&git_dir, &args) {
                    Ok(_) => c.rep.probe(if *prune { "foreign-pack-refs-prune" } else { "foreign-pack-refs" }),
                    Err(_) => c.rep.probe("foreign-op-refused"),
                }
                c.rep.ops += 1;
                observe_step(&mut c, &store, &git_dir, w.reflog, step, "git pack-refs", &[], 0, use_git, &foreign);
            }
            Op::Reopen => {
                store = open_store(&git_dir, w.reflog);
                c.rep.probe("store-reopened");
            }
            Op::HoldLocks { paths, release_after_ms, churn_ms } => {
                for p in paths {
                    let lp = git_dir.join(p);
                    if let Some(parent) = lp.parent() {
                        let _ = std::fs::create_dir_all(parent);
                    }
                    // what another git does: open(O_CREAT|O_EXCL)
                    if fsx::without_faults(|| std::fs::OpenOptions::new().write(true).create_new(true).open(&lp).is_ok()) {
                        foreign.insert(p.clone());
                    }
                }
                c.rep.probe("foreign-locks-held");
                if release_after_ms.is_some() || churn_ms.is_some() {
                    let paths: Vec<PathBuf> = paths.iter().filter(|p| foreign.contains(*p)).map(|p| git_dir.join(p)).collect();
                    let release = *release_after_ms;
                    let churn = *churn_ms;
                    releaser = Some(std::thread::spawn(move || {
                        if let Some((period, total)) = churn {
                            let t0 = std::time::Instant::now();
                            while t0.elapsed() < std::time::Duration::from_millis(total) {
                                std::thread::sleep(std::time::Duration::from_millis(period.max(1)));
                                for p in &paths {
                                    // another holder takes over: atomically replace the lock file (it never disappears)
                                    let tmp = p.with_extension("lock.next");
                                    fsx::without_faults(|| {
                                        let _ = std::fs::write(&tmp, b"x");
                                        let _ = std::fs::rename(&tmp, p);
                                    });
                                }
                            }
                        }
                        if let Some(ms) = release {
                            std::thread::sleep(std::time::Duration::from_millis(ms));
                            for p in paths {
                                let _ = std::fs::remove_file(p);
                            }
                        }
                    }));
                }
            }
            Op::ReleaseLocks => {
                if let Some(h) = releaser.take() {
                    let _ = h.join();
                }
                for p in &foreign {
                    let _ = std::fs::remove_file(git_dir.join(p));
                }
                foreign.clear();
            }
        }
        if !c.rep.violations.is_empty() {
            // later steps would only report consequences of the first divergence
            break;
        }
    }
    if let Some(h) = releaser.take() {
        let _ = h.join();
    }
    let states = std::mem::take(&mut c.states);
    *out.lock().unwrap() = Some((c.rep, states, txinfo));
}

#[derive(Clone, Debug)]
pub struct TxInfo {
    phase: String,
    pre: Model,
    post: Model,
    packed_before: Option<Vec<u8>>,
    packed_after: Option<Vec<u8>>,
    files: BTreeSet<String>,
    touched: Vec<String>,
    ok: bool,
    sim_ns: u64,
    backoff_ms: Option<u64>,
    n_edits: u64,
    shape: String,
    fs_events: u64,
}

// ---------------------------------------------------------------------------------------------------------------
// generation

fn gen_tgt(r: &mut Rng, name: &str) -> Tgt {
    if SYM_SOURCES.contains(&name) && r.chance(450) {
        // two-hop chains: HEAD -> refs/heads/sym -> <direct ref>; refs/heads/sym itself only points to direct refs
        if name != "refs/heads/sym" && r.chance(250) {
            return Tgt::Sym("refs/heads/sym".to_string());
        }
        Tgt::Sym(r.pick(SYM_TARGETS).to_string())
    } else if name.starts_with("refs/tags/") && r.chance(400) {
        Tgt::Obj(6 + r.usize_below(2))
    } else {
        Tgt::Obj(r.usize_below(6))
    }
}
fn gen_exp(r: &mut Rng, cur: Option<&Tgt>, name: &str, delete: bool) -> Exp {
    let truthful = r.chance(900);
    let other = || -> Tgt { Tgt::Obj(5) };
    let pick = r.below(if delete { 4 } else { 5 });
    // most of the time choose existence constraints that agree with the state, so that histories make progress
    let pick = if truthful && pick == 1 && cur.is_none() { 0 } else if truthful && pick == 4 && cur.is_some() { 0 } else if truthful && pick == 2 && cur.is_none() { 3 } else { pick };
    match pick {
        0 => Exp::Any,
        1 => Exp::MustExist,
        2 => Exp::MustExistAndMatch(if truthful { cur.cloned().unwrap_or_else(other) } else { gen_tgt(r, name) }),
        3 => Exp::ExistingMustMatch(if truthful { cur.cloned().unwrap_or_else(other) } else { gen_tgt(r, name) }),
        _ => Exp::MustNotExist,
    }
}
fn gen_edit(r: &mut Rng, m: &Model, used: &mut BTreeSet<String>) -> Option<Ed> {
    for _ in 0..8 {
        let name = r.pick(NAMES).to_string();
        if used.contains(&name) {
            continue;
        }
        let cur = m.get(&name);
        let delete = r.chance(250) && name != "HEAD";
        let deref = r.chance(if SYM_SOURCES.contains(&name.as_str()) { 500 } else { 100 });
        // with deref on a symbolic ref the referent is edited too: keep one edit per name
        if deref {
            let mut chain = vec![];
            let mut at = cur.cloned();
            for _ in 0..5 {
                if let Some(Tgt::Sym(t)) = at {
                    at = m.get(&t).cloned();
                    chain.push(t);
                } else {
                    break;
                }
            }
            if chain.iter().any(|t| used.contains(t)) {
                continue;
            }
            used.extend(chain);
        }
        used.insert(name.clone());
        let new = if delete { None } else { Some(gen_tgt(r, &name)) };
        let mut exp = gen_exp(r, cur, &name, delete);
        if delete && deref {
            // the expectation of a deref'd delete is applied to both the symbolic ref and its referent: keep to the unambiguous ones
            exp = if r.chance(500) { Exp::Any } else { Exp::MustExist };
        }
        if deref {
            if let (Some(Tgt::Sym(_)), Some(Tgt::Sym(_))) = (cur, new.as_ref()) {
                // "make the referent symbolic" would create symbolic chains; not part of the name-space discipline
                return Some(Ed { name, new: Some(Tgt::Obj(r.usize_below(6))), exp, log_only: false, force_log: r.chance(200), deref });
            }
        }
        return Some(Ed { name, new, exp, log_only: r.chance(80), force_log: r.chance(200), deref });
    }
    None
}

fn generate(seed: u64, tier: Tier, prop: &str) -> Workload {
    let mut r = Rng::stream(seed, STREAM_WORKLOAD);
    let mut sw = Rng::stream(seed, STREAM_SWARM);
    let mut model = Model::new();
    let mut init = vec![("HEAD".to_string(), Tgt::Sym("refs/heads/main".into()))];
    model.insert("HEAD".into(), Tgt::Sym("refs/heads/main".into()));
    let n_init = r.below(7);
    for _ in 0..n_init {
        let name = r.pick(&NAMES[1..]).to_string();
        if model.contains_key(&name) {
            continue;
        }
        let t = gen_tgt(&mut r, &name);
        model.insert(name.clone(), t.clone());
        init.push((name, t));
    }
    let contention = prop == "C17";
    let crash = prop == "C20";
    let n_ops = match (tier, crash) {
        (_, true) => 2 + r.below(6),
        (Tier::Quick, _) => 3 + r.below(10),
        (Tier::Thorough, _) => 3 + r.below(23),
    };
    let mut ops = vec![];
    let foreign_rate = if contention || crash { 80 } else { 220 };
    for _ in 0..n_ops {
        let roll = r.below(1000);
        if roll < foreign_rate {
            let name = r.pick(&NAMES[1..]).to_string();
            match r.below(6) {
                0 | 1 => {
                    if !SYM_SOURCES.contains(&name.as_str()) || !matches!(model.get(&name), Some(Tgt::Sym(_))) {
                        let obj = if name.starts_with("refs/tags/") { r.usize_below(N_OBJ) } else { r.usize_below(6) };
                        model.insert(name.clone(), Tgt::Obj(obj));
                        ops.push(Op::GitUpdate { name, obj });
                    }
                }
                2 => {
                    if model.contains_key(&name) {
                        model.remove(&name);
                        ops.push(Op::GitDelete { name });
                    }
                }
                3 => {
                    let src = r.pick(SYM_SOURCES).to_string();
                    let target = if src != "refs/heads/sym" && r.chance(250) { "refs/heads/sym".to_string() } else { r.pick(SYM_TARGETS).to_string() };
                    model.insert(src.clone(), Tgt::Sym(target.clone()));
                    ops.push(Op::GitSymref { name: src, target });
                }
                _ => ops.push(Op::GitPackRefs { prune: r.chance(500) }),
            }
            continue;
        }
        if roll < foreign_rate + 60 {
            ops.push(Op::Reopen);
            continue;
        }
        let n_edits = 1 + r.below(3) as usize;
        let mut used = BTreeSet::new();
        let mut edits = vec![];
        for _ in 0..n_edits {
            if let Some(e) = gen_edit(&mut r, &model, &mut used) {
                edits.push(e);
            }
        }
        if edits.is_empty() {
            continue;
        }
        let packed = *r.pick(&[0u8, 0, 1, 1, 2]);
        let commit = !r.chance(80);
        let backoff_ms = if contention { if r.chance(600) { Some(*r.pick(&[1u64, 5, 20, 100, 500, 2000])) } else { None } } else if r.chance(150) { Some(5) } else { None };
        if contention && r.chance(700) {
            // hold a seeded subset of the involved lock files
            let mut paths = vec![];
            for e in &edits {
                if r.chance(600) {
                    paths.push(format!("{}.lock", e.name));
                }
                if e.deref {
                    let mut at = model.get(&e.name).cloned();
                    for _ in 0..5 {
                        if let Some(Tgt::Sym(t)) = at {
                            if r.chance(700) {
                                paths.push(format!("{t}.lock"));
                            }
                            at = model.get(&t).cloned();
                        } else {
                            break;
                        }
                    }
                }
            }
            if r.chance(250) {
                paths.push("packed-refs.lock".into());
            }
            paths.sort();
            paths.dedup();
            if !paths.is_empty() {
                let release_after_ms = if r.chance(500) { Some(*r.pick(&[1u64, 3, 10, 50, 300, 1500])) } else { None };
                let churn_ms = if backoff_ms.is_some() && r.chance(350) { Some((*r.pick(&[5u64, 20, 50]), *r.pick(&[3_000u64, 8_000]))) } else { None };
                ops.push(Op::HoldLocks { paths, release_after_ms, churn_ms });
            }
        }
        if let Ok(eff) = model_tx(&model, &edits) {
            if commit && !contention {
                model_apply(&mut model, &eff);
            }
        }
        ops.push(Op::Tx { edits, packed, backoff_ms, commit });
        if contention {
            ops.push(Op::ReleaseLocks);
        }
    }
    let mut fs = fsx::FsCfg { stamp: true, ..Default::default() };
    if crash {
        fs.snapshot = true;
        fs.torn = true;
    } else if prop == "C16" && sw.chance(250) {
        // prepare-time fault class
        fs.enospc_permille = *sw.pick(&[5, 20, 60]);
        fs.eio_permille = *sw.pick(&[0, 5, 20]);
    }
    if sw.chance(200) {
        fs.coarse_ns = *sw.pick(&[4_000_000u64, 1_000_000_000]);
    }
    let git_every = match tier {
        Tier::Quick => 0,
        Tier::Thorough => 4,
    };
    let reflog = *r.pick(&[0u8, 1, 1, 2]);
    Workload { init, ops, reflog, fs, git_every: if prop == "C17" || prop == "C20" { 0 } else { git_every.max(1) * if tier == Tier::Quick { 1000 } else { 1 } }, sched: super::swarm_policy(&mut sw, 400) }
}

// ---------------------------------------------------------------------------------------------------------------

fn check_snapshots(w: &Workload, snaps: &[fsx::Snap], txinfo: &[TxInfo], rep: &mut Report, use_git: bool) {
    let o = objects();
    for s in snaps {
        let tx = match txinfo.iter().find(|t| t.phase == s.phase) {
            Some(t) => t,
            None => continue,
        };
        rep.crash_points += 1;
        let store = open_store(&s.dir, w.reflog);
        let kind = s.label.split(' ').next().unwrap_or("").to_string();
        let target = s.label.split(' ').nth(1).unwrap_or("");
        let tshape = if target.contains("packed-refs") { "packed-refs" } else if target.starts_with("logs/") { "reflog" } else if target.ends_with(".lock") { "ref-lock" } else { "ref" };
        let where_ = format!("crash-at={kind}:{tshape}{}", if s.torn.is_some() { ":torn" } else { "" });
        for n in NAMES {
            let old = tx.pre.get(*n);
            let new = tx.post.get(*n);
            match store.try_find(*n) {
                Ok(got) => {
                    let got = got.map(|r| from_target(&r.target, &o));
                    if got.as_ref() != old && got.as_ref() != new {
                        rep.violate(
                            "C20",
                            format!("refstore C20 neither-old-nor-new name-kind={} {where_} | {}", name_kind(n), tx.shape),
                            format!("{} crash before fs mutation {} ({}): {n} reads {got:?}; old {old:?}, new {new:?}; tx {}", tx.phase, s.k, s.label, tx.shape),
                        );
                        return;
                    }
                }
                Err(e) => {
                    rep.violate(
                        "C20",
                        format!("refstore C20 unreadable name-kind={} {where_} | {}", name_kind(n), tx.shape),
                        format!("{} crash before fs mutation {} ({}): {n} cannot be read: {e}", tx.phase, s.k, s.label),
                    );
                    return;
                }
            }
        }
        let pk = std::fs::read(s.dir.join("packed-refs")).ok();
        if pk != tx.packed_before && pk != tx.packed_after {
            rep.violate("C20", format!("refstore C20 packed-refs-partial {where_}"), format!("{} crash before mutation {} ({}): packed-refs is neither the old nor the new file", tx.phase, s.k, s.label));
            return;
        }
        let mut files = BTreeSet::new();
        list_files(&s.dir, &mut files, &s.dir);
        for f in files {
            if !tx.files.contains(&f) && !f.ends_with(".lock") {
                rep.violate("C20", format!("refstore C20 leftover-not-a-lock {where_}"), format!("{} crash before mutation {} ({}): unexpected file {f}", tx.phase, s.k, s.label));
                return;
            }
        }
        if use_git && s.torn.is_none() && s.k % 5 == 0 {
            rep.probe("git-read-crash-state");
            if let Err(e) = git(&s.dir, &["for-each-ref"]) {
                // one root cause, whatever the crash point: the store's own clean-up removed the empty `refs/` directory
                // earlier (C16's known finding); a process that dies before something re-creates it leaves a directory git
                // does not accept as a repository
                let sig = if e.contains("not a git repository") && !s.dir.join("refs").is_dir() { "refstore C20 git-cannot-read refs-directory-missing".to_string() } else { format!("refstore C20 git-cannot-read {where_}") };
                rep.violate("C20", sig, format!("{} crash before mutation {} ({where_}): {e}", tx.phase, s.k));
                return;
            }
        }
    }
}

impl Scenario for RefStore {
    fn name(&self) -> &'static str {
        "refstore"
    }
    fn properties(&self) -> &'static [&'static str] {
        &["C16", "C17", "C18", "C20"]
    }
    fn runs(&self, tier: Tier, p: &str) -> u64 {
        match p {
            "C20" => super::tier_pick(tier, 600, 20_000),
            "C17" => super::tier_pick(tier, 2_500, 150_000),
            _ => super::tier_pick(tier, 2_000, 60_000),
        }
    }
    fn jobs_hint(&self) -> usize {
        16
    }
    fn cpu_limit_s(&self, p: &str) -> u64 {
        // C17 hunts endless loops (a normal run needs milliseconds); C20 copies the tree at every mutation
        // (CPU time stretches several-fold on a machine that runs other batches next to this one: a thorough-tier history
        // that needs 2 s alone was seen to need more than 15 s; a limit that fires without a hang cannot be replayed and
        // is a harness error, so the limits are generous — an endless loop hits any of them)
        match p {
            "C17" => 40,
            "C20" => 300,
            _ => 120,
        }
    }
    fn worker_init(&self, dir: &Path, _tier: Tier) {
        // template git dir: objects (written by gitoxide's loose store), config
        let o = objects();
        let objdir = dir.join("objects");
        std::fs::create_dir_all(&objdir).unwrap();
        let odb = gix_odb::loose::Store::at(&objdir, gix_hash::Kind::Sha1);
        use gix_odb::Write;
        for (id, (kind, data)) in &o.data {
            let got = odb.write_buf(*kind, data).expect("write template object");
            assert_eq!(&got, id);
        }
        std::fs::write(dir.join("config"), "[core]\n\trepositoryformatversion = 0\n\tbare = true\n\tlogAllRefUpdates = false\n").unwrap();
    }
    fn generate(&self, seed: u64, tier: Tier, p: &str) -> Value {
        serde_json::to_value(generate(seed, tier, p)).unwrap()
    }
    fn execute(&self, wv: &Value, ctx: &ExecCtx) -> Report {
        let w: Workload = match serde_json::from_value(wv.clone()) {
            Ok(w) => w,
            Err(e) => {
                let mut r = Report::default();
                r.harness_error = Some(format!("bad workload: {e}"));
                return r;
            }
        };
        let live = ctx.sandbox.join("live");
        std::fs::create_dir_all(live.join("refs/heads")).unwrap();
        std::fs::create_dir_all(live.join("refs/tags")).unwrap();
        std::os::unix::fs::symlink(ctx.worker_dir.join("objects"), live.join("objects")).unwrap();
        std::fs::copy(ctx.worker_dir.join("config"), live.join("config")).unwrap();
        let mut fscfg = w.fs.clone();
        fscfg.root = live.to_string_lossy().into_owned();
        fsx::configure(fscfg);
        let mut cfg = ctx.rt_cfg();
        super::apply_swarm(&mut cfg, wv);
        cfg.max_steps = 400_000;
        let out = std::sync::Arc::new(std::sync::Mutex::new(None));
        let out2 = out.clone();
        let w2 = w.clone();
        let prop = ctx.property.clone();
        let live2 = live.clone();
        let o = rt::run(cfg, move || history(w2, prop, live2, out2));
        let fs = fsx::take().unwrap();
        let got = out.lock().unwrap().take();
        let mut rep = Report::default();
        let mut txinfo = vec![];
        if let Some((r, states, ti)) = got {
            rep = r;
            rep.states = states;
            txinfo = ti;
        }
        rep.absorb_outcome(&o);
        let prop = ctx.property.as_str();
        if o.deadlock || o.budget_exceeded {
            let p = if prop == "C17" { "C17" } else { prop };
            rep.violate(p, format!("refstore {p} {}", if o.deadlock { "deadlock" } else { "step-budget-exceeded" }), format!("blocked={:?}", o.blocked));
        } else if o.root_panicked || !o.panics.is_empty() {
            rep.violate(prop, format!("refstore {prop} panic | {}", o.panics.first().map(|s| s.split(" @ ").nth(1).unwrap_or("")).unwrap_or("")), format!("{:?}", o.panics));
        }
        // C17: bounded simulated time per transaction
        if prop == "C17" {
            for t in &txinfo {
                let locks = t.n_edits * 2 + 1;
                let per = t.backoff_ms.unwrap_or(0) * 1_000_000 + 1_300_000_000;
                let bound = locks * per + 1_000_000_000;
                if t.sim_ns > bound {
                    rep.violate("C17", format!("refstore C17 too-slow backoff={:?}", t.backoff_ms), format!("{} took {} ms of simulated time; bound {} ms; {}", t.phase, t.sim_ns / 1_000_000, bound / 1_000_000, t.shape));
                }
                if t.sim_ns > 1_000_000_000 {
                    rep.probe("tx-waited-over-1s");
                }
            }
        }
        if prop == "C20" {
            check_snapshots(&w, &fs.snaps, &txinfo, &mut rep, ctx.tier == Tier::Thorough);
            rep.probe_n_local("snapshots", fs.snaps.len() as u64);
            rep.probe_n_local("torn-snapshots", fs.snaps.iter().filter(|s| s.torn.is_some()).count() as u64);
        }
        rep.probe_n_local("fs-mutations", fs.mutations);
        rep.probe_n_local("fsync-calls", fs.fsyncs);
        rep.nontrivial = rep.nontrivial || rep.ops >= 2;
        let mut st = Fnv::default();
        for t in &txinfo {
            st.write(t.shape.as_bytes());
            st.write(&[t.ok as u8]);
        }
        rep.log_hash ^= st.0;
        rep.summary = format!("{} ops, {} tx ({} ok), {} fs mutations, {} snapshots, model states {}", w.ops.len(), txinfo.len(), txinfo.iter().filter(|t| t.ok).count(), fs.mutations, fs.snaps.len(), rep.states.len());
        rep
    }
    fn shrink(&self, wv: &Value) -> Vec<Value> {
        let w: Workload = match serde_json::from_value(wv.clone()) {
            Ok(w) => w,
            Err(_) => return vec![],
        };
        let mut out = vec![];
        // drop operations (later ones first), drop initial refs, drop edits, simplify edits
        for i in (0..w.ops.len()).rev() {
            let mut c = w.clone();
            c.ops.remove(i);
            out.push(c);
        }
        for i in (1..w.init.len()).rev() {
            let mut c = w.clone();
            c.init.remove(i);
            out.push(c);
        }
        for (i, op) in w.ops.iter().enumerate() {
            if let Op::Tx { edits, packed, backoff_ms, commit } = op {
                if edits.len() > 1 {
                    for j in 0..edits.len() {
                        let mut c = w.clone();
                        let mut e2 = edits.clone();
                        e2.remove(j);
                        c.ops[i] = Op::Tx { edits: e2, packed: *packed, backoff_ms: *backoff_ms, commit: *commit };
                        out.push(c);
                    }
                }
                for j in 0..edits.len() {
                    let e = &edits[j];
                    let mut simpler = vec![];
                    if e.exp != Exp::Any {
                        simpler.push(Ed { exp: Exp::Any, ..e.clone() });
                    }
                    if e.force_log {
                        simpler.push(Ed { force_log: false, ..e.clone() });
                    }
                    if e.log_only {
                        simpler.push(Ed { log_only: false, ..e.clone() });
                    }
                    if e.deref {
                        simpler.push(Ed { deref: false, ..e.clone() });
                    }
                    for s in simpler {
                        let mut c = w.clone();
                        let mut e2 = edits.clone();
                        e2[j] = s;
                        c.ops[i] = Op::Tx { edits: e2, packed: *packed, backoff_ms: *backoff_ms, commit: *commit };
                        out.push(c);
                    }
                }
                if *packed != 0 {
                    let mut c = w.clone();
                    c.ops[i] = Op::Tx { edits: edits.clone(), packed: 0, backoff_ms: *backoff_ms, commit: *commit };
                    out.push(c);
                }
            }
        }
        if w.reflog != 0 {
            let mut c = w.clone();
            c.reflog = 0;
            out.push(c);
        }
        if w.fs.coarse_ns != 0 {
            let mut c = w.clone();
            c.fs.coarse_ns = 0;
            out.push(c);
        }
        out.into_iter().map(|c| serde_json::to_value(c).unwrap()).collect()
    }
    fn classify_death(&self, how: &str, wv: &Value, p: &str) -> Option<Violation> {
        if how == "SIGXCPU" || how == "SIGKILL" {
            let shape = serde_json::from_value::<Workload>(wv.clone())
                .ok()
                .map(|w| {
                    let any_deref = w.ops.iter().any(|o| matches!(o, Op::Tx { edits, .. } if edits.iter().any(|e| e.deref)));
                    let held = w.ops.iter().any(|o| matches!(o, Op::HoldLocks { .. }));
                    format!("deref={} locks-held={}", any_deref as u8, held as u8)
                })
                .unwrap_or_default();
            return Some(Violation { property: if p == "C17" { "C17".into() } else { p.into() }, sig: format!("refstore {p} cpu-hang {shape}"), detail: "the run exhausted its CPU limit inside a reference transaction without reaching a scheduling point (endless loop)".into() });
        }
        None
    }
    fn level(&self, p: &str) -> &'static str {
        if p == "C20" {
            "fault_enumeration"
        } else {
            "exploration"
        }
    }
    fn rule(&self, p: &str) -> String {
        match p {
            "C20" => "every file-system mutation between entering prepare and leaving commit of every generated transaction is a crash point (plus torn prefixes of each data write); evaluations = histories; crash_points_examined = snapshots checked; non-trivial = history with >=2 operations; distinct = distinct (workload, decisions)".into(),
            _ => "histories of 3..25 operations (transactions of 1..3 edits with every PreviousValue / RefLog / deref / PackedRefs combination, real git update-ref / symbolic-ref / pack-refs as foreign writer, store reopen, held foreign locks for C17); non-trivial = >=2 operations; distinct = distinct (workload, decisions)".into(),
        }
    }
    fn real_stub(&self) -> Value {
        json!({
            "real": ["gix-ref file::Store, transactions, packed-refs, loose/packed iteration", "gix-lock", "gix-tempfile", "tempfile (rustix on its libc backend)", "gix-fs", "kernel tmpfs", "git 2.39.5 as foreign writer and second observer"],
            "simulated": ["file-system call order, errno faults, crash points (snapshots) and mtimes", "clock, sleeps (lock back-off), getrandom", "thread scheduling"],
            "stub": ["object lookup behind gix_object::Find (in-memory map with fault switch)", "another process holding lock files (O_CREAT|O_EXCL create, unlink on release)"],
        })
    }
    fn assumptions(&self, p: &str) -> Vec<String> {
        let mut v = vec!["name space of 14 names without directory/file conflicts; symbolic refs only from 3 source names to 4 target names (no chains, no cycles)".to_string()];
        if p == "C20" {
            v.push("crash = process death with the kernel surviving (snapshot of the tree before each mutating call); power-loss reordering of unsynced writes is not modelled".into());
            v.push("reflogs are not part of the old-or-new oracle".into());
        }
        if p == "C16" {
            v.push("concurrent gitoxide transactions are outside the statement ('any sequence') and not generated".into());
        }
        v
    }
}

trait ProbeN {
    fn probe_n_local(&mut self, k: &str, n: u64);
}
impl ProbeN for Report {
    fn probe_n_local(&mut self, k: &str, n: u64) {
        *self.probes.entry(k.to_string()).or_insert(0) += n;
    }
}
