//! C29 — packet-line framing is exact and never panics (DESIGN §4): blocking and async readers/writers over
//! chunking / EINTR / Pending / EOF / error / corrupted-length-prefix streams.
use crate::driver::{ExecCtx, Report, Scenario, Tier};
use crate::io::{block_on, catch_panics, Choices, FaultyAsyncRead, FaultyAsyncWrite, FaultyRead, FaultyWrite, IoPlan};
use crate::prng::{Fnv, Rng, STREAM_FAULT, STREAM_WORKLOAD};
use serde::{Deserialize, Serialize};
use serde_json::{json, Value};

pub struct PktLine;
const P: &str = "C29";
const MAX_DATA: usize = 65516;

#[derive(Clone, Debug, Serialize, Deserialize, PartialEq)]
pub enum Kind {
    Data,
    Text,
    Err,
    Band1,
    Band2,
    Band3,
    Flush,
    Delim,
    ResponseEnd,
}
#[derive(Clone, Debug, Serialize, Deserialize, PartialEq)]
pub struct Line {
    pub kind: Kind,
    pub len: usize,
    pub fill: u8,
}
#[derive(Clone, Debug, Serialize, Deserialize)]
pub struct Workload {
    pub lines: Vec<Line>,
    /// lines | peek | sidebands | sidebands-bufread | line-to-string | async-lines | async-sidebands | writer-binary | writer-text
    pub mode: String,
    pub fail_on_err: bool,
    pub stop_at_flush: bool,
    pub read_buf: usize,
    pub plan: IoPlan,
    pub write_plan: IoPlan,
    /// replace the 4-byte prefix of line `idx` by these bytes (corrupted length prefix)
    pub corrupt: Option<(usize, [u8; 4])>,
}

fn payload(l: &Line) -> Vec<u8> {
    // printable, no newline, deterministic
    (0..l.len).map(|i| b'a' + ((l.fill as usize + i * 7) % 26) as u8).collect()
}
/// Independent encoder (the oracle's own): what must be on the wire.
fn wire(l: &Line) -> Vec<u8> {
    let p = payload(l);
    let body: Vec<u8> = match l.kind {
        Kind::Flush => return b"0000".to_vec(),
        Kind::Delim => return b"0001".to_vec(),
        Kind::ResponseEnd => return b"0002".to_vec(),
        Kind::Data => p,
        Kind::Text => [p.as_slice(), b"\n"].concat(),
        Kind::Err => [b"ERR ".as_slice(), p.as_slice()].concat(),
        Kind::Band1 => [&[1u8][..], p.as_slice()].concat(),
        Kind::Band2 => [&[2u8][..], p.as_slice()].concat(),
        Kind::Band3 => [&[3u8][..], p.as_slice()].concat(),
    };
    let mut v = format!("{:04x}", body.len() + 4).into_bytes();
    v.extend_from_slice(&body);
    v
}
fn body_of(l: &Line) -> Option<Vec<u8>> {
    let w = wire(l);
    if w.len() == 4 {
        None
    } else {
        Some(w[4..].to_vec())
    }
}
fn overhead(k: &Kind) -> usize {
    match k {
        Kind::Data => 0,
        Kind::Text | Kind::Band1 | Kind::Band2 | Kind::Band3 => 1,
        Kind::Err => 4,
        _ => 0,
    }
}

/// What a reader produced, in a comparable form.
#[derive(Debug, PartialEq, Clone)]
enum Got {
    Data(Vec<u8>),
    Flush,
    Delim,
    ResponseEnd,
    DecodeErr,
    IoErr,
}

macro_rules! encode_with {
    ($pl:ident, $lines:expr, $out:expr) => {{
        let mut res: std::io::Result<()> = Ok(());
        for l in $lines {
            let p = payload(l);
            let r = match l.kind {
                Kind::Data => $pl::encode::data_to_write(&p, &mut $out),
                Kind::Text => $pl::encode::text_to_write(&p, &mut $out),
                Kind::Err => $pl::encode::error_to_write(&p, &mut $out),
                Kind::Band1 => $pl::encode::band_to_write($pl::Channel::Data, &p, &mut $out),
                Kind::Band2 => $pl::encode::band_to_write($pl::Channel::Progress, &p, &mut $out),
                Kind::Band3 => $pl::encode::band_to_write($pl::Channel::Error, &p, &mut $out),
                Kind::Flush => $pl::encode::flush_to_write(&mut $out),
                Kind::Delim => $pl::encode::delim_to_write(&mut $out),
                Kind::ResponseEnd => $pl::encode::response_end_to_write(&mut $out),
            };
            if let Err(e) = r {
                res = Err(e);
                break;
            }
        }
        res
    }};
}

fn conv_b(l: Option<std::io::Result<Result<gix_packetline_blocking::PacketLineRef<'_>, gix_packetline_blocking::decode::Error>>>) -> Option<Got> {
    use gix_packetline_blocking::PacketLineRef as L;
    l.map(|r| match r {
        Ok(Ok(L::Data(d))) => Got::Data(d.to_vec()),
        Ok(Ok(L::Flush)) => Got::Flush,
        Ok(Ok(L::Delimiter)) => Got::Delim,
        Ok(Ok(L::ResponseEnd)) => Got::ResponseEnd,
        Ok(Err(_)) => Got::DecodeErr,
        Err(_) => Got::IoErr,
    })
}
fn conv_a(l: Option<std::io::Result<Result<gix_packetline::PacketLineRef<'_>, gix_packetline::decode::Error>>>) -> Option<Got> {
    use gix_packetline::PacketLineRef as L;
    l.map(|r| match r {
        Ok(Ok(L::Data(d))) => Got::Data(d.to_vec()),
        Ok(Ok(L::Flush)) => Got::Flush,
        Ok(Ok(L::Delimiter)) => Got::Delim,
        Ok(Ok(L::ResponseEnd)) => Got::ResponseEnd,
        Ok(Err(_)) => Got::DecodeErr,
        Err(_) => Got::IoErr,
    })
}

struct Run {
    got: Vec<Got>,
    /// sideband mode: data bytes, progress messages (is_err, text)
    data: Vec<u8>,
    progress: Vec<(bool, Vec<u8>)>,
    read_err: bool,
    encoded: Option<Vec<u8>>,
    encode_err: bool,
    stops: Vec<Got>,
}

fn expected_lines(w: &Workload) -> Vec<Got> {
    w.lines
        .iter()
        .map(|l| match l.kind {
            Kind::Flush => Got::Flush,
            Kind::Delim => Got::Delim,
            Kind::ResponseEnd => Got::ResponseEnd,
            _ => Got::Data(body_of(l).unwrap()),
        })
        .collect()
}

fn stream_bytes(w: &Workload) -> Vec<u8> {
    let mut v = vec![];
    for (i, l) in w.lines.iter().enumerate() {
        let mut b = wire(l);
        if let Some((idx, pfx)) = &w.corrupt {
            if *idx == i {
                b[..4].copy_from_slice(pfx);
            }
        }
        v.extend_from_slice(&b);
    }
    v
}

fn execute_inner(w: &Workload, seed: u64, replay: Option<Vec<u16>>) -> (Run, crate::io::Ch) {
    use std::io::{BufRead, Read};
    let ch = Choices::new(seed, STREAM_FAULT, replay);
    let mut run = Run { got: vec![], data: vec![], progress: vec![], read_err: false, encoded: None, encode_err: false, stops: vec![] };
    let bytes = stream_bytes(w);
    let max_reads = w.lines.len() * 3 + 8;
    match w.mode.as_str() {
        "writer-binary" | "writer-text" | "encode" | "async-encode" => {
            if w.mode == "encode" {
                let mut out = FaultyWrite::new(w.write_plan.clone(), ch.clone());
                let r = encode_with!(gix_packetline_blocking, &w.lines, out);
                run.encode_err = r.is_err();
                run.encoded = Some(out.out);
            } else if w.mode == "async-encode" {
                let mut out = FaultyAsyncWrite { inner: FaultyWrite::new(w.write_plan.clone(), ch.clone()) };
                let r = block_on(async {
                    let mut res: std::io::Result<()> = Ok(());
                    for l in &w.lines {
                        let p = payload(l);
                        let r = match l.kind {
                            Kind::Data => gix_packetline::encode::data_to_write(&p, &mut out).await,
                            Kind::Text => gix_packetline::encode::text_to_write(&p, &mut out).await,
                            Kind::Err => gix_packetline::encode::error_to_write(&p, &mut out).await,
                            Kind::Band1 => gix_packetline::encode::band_to_write(gix_packetline::Channel::Data, &p, &mut out).await,
                            Kind::Band2 => gix_packetline::encode::band_to_write(gix_packetline::Channel::Progress, &p, &mut out).await,
                            Kind::Band3 => gix_packetline::encode::band_to_write(gix_packetline::Channel::Error, &p, &mut out).await,
                            Kind::Flush => gix_packetline::encode::flush_to_write(&mut out).await,
                            Kind::Delim => gix_packetline::encode::delim_to_write(&mut out).await,
                            Kind::ResponseEnd => gix_packetline::encode::response_end_to_write(&mut out).await,
                        };
                        if let Err(e) = r {
                            res = Err(e);
                            break;
                        }
                    }
                    res
                });
                run.encode_err = !matches!(r, Ok(Ok(())));
                if r.is_err() {
                    run.read_err = true; // lost wake-up marker
                }
                run.encoded = Some(out.inner.out);
            } else {
                // the Writer: a byte stream is cut into data (binary) or text lines
                use std::io::Write;
                let out = FaultyWrite::new(w.write_plan.clone(), ch.clone());
                let mut wr = gix_packetline_blocking::Writer::new(out);
                if w.mode == "writer-text" {
                    wr.enable_text_mode();
                }
                let mut err = false;
                for l in &w.lines {
                    if matches!(l.kind, Kind::Flush) {
                        if gix_packetline_blocking::encode::flush_to_write(wr.inner_mut()).is_err() {
                            err = true;
                            break;
                        }
                        continue;
                    }
                    if wr.write_all(&payload(l)).is_err() {
                        err = true;
                        break;
                    }
                }
                run.encode_err = err;
                run.encoded = Some(wr.into_inner().out);
            }
        }
        "lines" | "peek" => {
            let rd = FaultyRead::new(bytes, w.plan.clone(), ch.clone());
            let delims: &'static [gix_packetline_blocking::PacketLineRef<'static>] = if w.stop_at_flush { &[gix_packetline_blocking::PacketLineRef::Flush] } else { &[] };
            let mut it = gix_packetline_blocking::StreamingPeekableIter::new(rd, delims, false);
            it.fail_on_err_lines(w.fail_on_err);
            let mut n = 0;
            loop {
                n += 1;
                if n > max_reads {
                    break;
                }
                if w.mode == "peek" {
                    let peeks = ch.borrow_mut().decide(3, |r| r.usize_below(3));
                    let mut first: Option<Option<Got>> = None;
                    for _ in 0..peeks {
                        let p = conv_b(it.peek_line());
                        match &first {
                            None => first = Some(p),
                            Some(f) => {
                                // repeated peeks agree, unless they report an error (errors are not cached)
                                if *f != p && !matches!(f, Some(Got::IoErr) | Some(Got::DecodeErr) | None) {
                                    run.got.push(Got::Data(b"PEEK-MISMATCH".to_vec()));
                                }
                            }
                        }
                    }
                    if let Some(Some(e @ (Got::IoErr | Got::DecodeErr))) = &first {
                        // an error (ERR line, cut stream) may surface at the peek already
                        run.got.push(e.clone());
                        break;
                    }
                    let r = conv_b(it.read_line());
                    if let Some(Some(p)) = &first {
                        if matches!(p, Got::Data(_)) && r.as_ref() != Some(p) {
                            run.got.push(Got::Data(b"PEEK-READ-MISMATCH".to_vec()));
                        }
                    }
                    match r {
                        Some(g) => {
                            let stop = matches!(g, Got::IoErr | Got::DecodeErr);
                            run.got.push(g);
                            if stop {
                                break;
                            }
                        }
                        None => match it.stopped_at() {
                            Some(_) => {
                                run.got.push(Got::Flush);
                                run.stops.push(Got::Flush);
                                it.reset();
                            }
                            None => break,
                        },
                    }
                } else {
                    match conv_b(it.read_line()) {
                        Some(g) => {
                            let stop = matches!(g, Got::IoErr | Got::DecodeErr);
                            run.got.push(g);
                            if stop {
                                break;
                            }
                        }
                        None => match it.stopped_at() {
                            Some(_) => {
                                run.got.push(Got::Flush);
                                run.stops.push(Got::Flush);
                                it.reset();
                            }
                            None => break,
                        },
                    }
                }
            }
        }
        "sidebands" | "sidebands-bufread" | "line-to-string" => {
            let rd = FaultyRead::new(bytes, w.plan.clone(), ch.clone());
            let mut it = gix_packetline_blocking::StreamingPeekableIter::new(rd, &[gix_packetline_blocking::PacketLineRef::Flush], false);
            it.fail_on_err_lines(w.fail_on_err);
            let mut progress = vec![];
            {
                let mut r = it.as_read_with_sidebands(|is_err: bool, text: &[u8]| {
                    progress.push((is_err, text.to_vec()));
                    gix_packetline_blocking::read::ProgressAction::Continue
                });
                if w.mode == "sidebands" {
                    let mut buf = vec![0u8; w.read_buf.max(1)];
                    let mut guard = 0u64;
                    loop {
                        guard += 1;
                        if guard > 10_000_000 {
                            run.read_err = true;
                            break;
                        }
                        match r.read(&mut buf) {
                            Ok(0) => break,
                            Ok(n) => run.data.extend_from_slice(&buf[..n]),
                            Err(e) if e.kind() == std::io::ErrorKind::Interrupted => continue,
                            Err(_) => {
                                run.read_err = true;
                                break;
                            }
                        }
                    }
                } else if w.mode == "sidebands-bufread" {
                    let mut guard = 0u64;
                    loop {
                        guard += 1;
                        if guard > 10_000_000 {
                            run.read_err = true;
                            break;
                        }
                        match r.fill_buf() {
                            Ok(b) if b.is_empty() => break,
                            Ok(b) => {
                                let take = b.len().min(w.read_buf.max(1));
                                run.data.extend_from_slice(&b[..take]);
                                r.consume(take);
                            }
                            Err(e) if e.kind() == std::io::ErrorKind::Interrupted => continue,
                            Err(_) => {
                                run.read_err = true;
                                break;
                            }
                        }
                    }
                } else {
                    let mut guard = 0;
                    loop {
                        guard += 1;
                        if guard > max_reads {
                            break;
                        }
                        let mut s = String::new();
                        match r.read_line_to_string(&mut s) {
                            Ok(0) => break,
                            Ok(_) => run.data.extend_from_slice(s.as_bytes()),
                            Err(_) => {
                                run.read_err = true;
                                break;
                            }
                        }
                    }
                }
            }
            run.progress = progress;
        }
        "async-lines" => {
            let rd = FaultyAsyncRead::new(bytes, w.plan.clone(), ch.clone());
            let delims: &'static [gix_packetline::PacketLineRef<'static>] = if w.stop_at_flush { &[gix_packetline::PacketLineRef::Flush] } else { &[] };
            let mut it = gix_packetline::StreamingPeekableIter::new(rd, delims, false);
            it.fail_on_err_lines(w.fail_on_err);
            let r = block_on(async {
                let mut got = vec![];
                let mut n = 0;
                loop {
                    n += 1;
                    if n > max_reads {
                        break;
                    }
                    let peek = ch.borrow_mut().decide(2, |r| r.usize_below(2)) == 1;
                    let mut peeked = None;
                    if peek {
                        peeked = conv_a(it.peek_line().await);
                    }
                    if let Some(e @ (Got::IoErr | Got::DecodeErr)) = &peeked {
                        got.push(e.clone());
                        break;
                    }
                    let r = conv_a(it.read_line().await);
                    if let Some(p @ Got::Data(_)) = &peeked {
                        if r.as_ref() != Some(p) {
                            got.push(Got::Data(b"PEEK-READ-MISMATCH".to_vec()));
                        }
                    }
                    match r {
                        Some(g) => {
                            let stop = matches!(g, Got::IoErr | Got::DecodeErr);
                            got.push(g);
                            if stop {
                                break;
                            }
                        }
                        None => match it.stopped_at() {
                            Some(_) => {
                                got.push(Got::Flush);
                                it.reset();
                            }
                            None => break,
                        },
                    }
                }
                got
            });
            match r {
                Ok(g) => run.got = g,
                Err(_) => {
                    run.read_err = true;
                    run.got.push(Got::Data(b"LOST-WAKEUP".to_vec()));
                }
            }
        }
        "async-sidebands" => {
            use futures_lite::AsyncReadExt;
            let rd = FaultyAsyncRead::new(bytes, w.plan.clone(), ch.clone());
            let mut it = gix_packetline::StreamingPeekableIter::new(rd, &[gix_packetline::PacketLineRef::Flush], false);
            it.fail_on_err_lines(w.fail_on_err);
            let progress = std::cell::RefCell::new(vec![]);
            let r = block_on(async {
                let mut data = vec![];
                let mut err = false;
                let mut r = it.as_read_with_sidebands(|is_err: bool, text: &[u8]| {
                    progress.borrow_mut().push((is_err, text.to_vec()));
                    gix_packetline::read::ProgressAction::Continue
                });
                let mut buf = vec![0u8; w.read_buf.max(1)];
                let mut guard = 0u64;
                loop {
                    guard += 1;
                    if guard > 10_000_000 {
                        err = true;
                        break;
                    }
                    match r.read(&mut buf).await {
                        Ok(0) => break,
                        Ok(n) => data.extend_from_slice(&buf[..n]),
                        Err(_) => {
                            err = true;
                            break;
                        }
                    }
                }
                (data, err)
            });
            match r {
                Ok((d, e)) => {
                    run.data = d;
                    run.read_err = e;
                }
                Err(_) => {
                    run.read_err = true;
                    run.data = b"LOST-WAKEUP".to_vec();
                }
            }
            run.progress = progress.into_inner();
        }
        _ => {}
    }
    (run, ch)
}

fn oracle(w: &Workload, run: &Run, rep: &mut Report) {
    let benign = w.plan.benign() && w.corrupt.is_none();
    let mode = w.mode.as_str();
    match mode {
        "encode" | "async-encode" => {
            let exp: Vec<u8> = w.lines.iter().flat_map(wire).collect();
            let enc = run.encoded.clone().unwrap_or_default();
            let too_long = w.lines.iter().any(|l| l.len + overhead(&l.kind) > MAX_DATA || (l.len == 0 && !matches!(l.kind, Kind::Flush | Kind::Delim | Kind::ResponseEnd)));
            if w.write_plan.benign() && !too_long {
                if run.encode_err {
                    rep.violate(P, format!("pktline encode-refused {mode}"), format!("a legal line sequence was refused: {:?}", w.lines));
                } else if enc != exp {
                    rep.violate(P, format!("pktline encode-bytes {mode}"), format!("encoded bytes differ from the wire format at offset {}", enc.iter().zip(exp.iter()).position(|(a, b)| a != b).unwrap_or(enc.len().min(exp.len()))));
                }
            } else if !exp.starts_with(&enc) && !too_long {
                rep.violate(P, format!("pktline encode-prefix {mode}"), "bytes written before a sink error are not a prefix of the wire format".to_string());
            }
        }
        "writer-binary" | "writer-text" => {
            // decode what the Writer produced with the oracle's own decoder and compare the concatenated payload
            let enc = run.encoded.clone().unwrap_or_default();
            let mut pos = 0;
            let mut out: Vec<u8> = vec![];
            let mut bad = None;
            while pos + 4 <= enc.len() {
                let n = usize::from_str_radix(std::str::from_utf8(&enc[pos..pos + 4]).unwrap_or("zzzz"), 16).unwrap_or(usize::MAX);
                if n == 0 {
                    pos += 4;
                    continue;
                }
                if n < 5 || n > MAX_DATA + 4 || pos + n > enc.len() {
                    if w.write_plan.benign() && !run.encode_err {
                        bad = Some(format!("bad frame length {n:#x} at {pos}"));
                    }
                    break;
                }
                let mut body = &enc[pos + 4..pos + n];
                if mode == "writer-text" {
                    if body.last() != Some(&b'\n') {
                        bad = Some(format!("text line without newline at {pos}"));
                        break;
                    }
                    body = &body[..body.len() - 1];
                }
                out.extend_from_slice(body);
                pos += n;
            }
            if let Some(b) = bad {
                rep.violate(P, format!("pktline writer-frame {mode}"), b);
            }
            let exp: Vec<u8> = w.lines.iter().filter(|l| !matches!(l.kind, Kind::Flush)).flat_map(payload).collect();
            if !run.encode_err && w.write_plan.benign() {
                if out != exp {
                    rep.violate(P, format!("pktline writer-payload {mode}"), format!("payload read back ({} bytes) differs from what was written ({} bytes)", out.len(), exp.len()));
                }
            } else if !exp.starts_with(&out) && mode == "writer-binary" {
                rep.violate(P, format!("pktline writer-prefix {mode}"), "frames written before an error do not carry a prefix of the payload".to_string());
            }
        }
        "lines" | "peek" | "async-lines" => {
            let exp = expected_lines(w);
            if run.got.iter().any(|g| matches!(g, Got::Data(d) if d.starts_with(b"PEEK-") || d == b"LOST-WAKEUP")) {
                rep.violate(P, format!("pktline peek-or-wakeup {mode}"), format!("{:?}", run.got.iter().filter(|g| matches!(g, Got::Data(d) if d.len() < 24)).collect::<Vec<_>>()));
                return;
            }
            // expected sequence as the reader reports it: ERR lines end the iteration when fail_on_err is set
            let mut want: Vec<Got> = vec![];
            let mut ends_with_err = false;
            for (l, g) in w.lines.iter().zip(exp.iter()) {
                if w.fail_on_err && l.kind == Kind::Err {
                    ends_with_err = true;
                    break;
                }
                if !w.stop_at_flush && *g == Got::Flush {
                    want.push(Got::Flush);
                    continue;
                }
                want.push(g.clone());
            }
            if benign {
                // all lines, then (optionally) one error item for the ERR line / EOF
                let got_lines: Vec<&Got> = run.got.iter().take_while(|g| !matches!(g, Got::IoErr | Got::DecodeErr)).collect();
                let want_refs: Vec<&Got> = want.iter().collect();
                if got_lines != want_refs {
                    let i = got_lines.iter().zip(want_refs.iter()).position(|(a, b)| a != b).unwrap_or(got_lines.len().min(want_refs.len()));
                    rep.violate(P, format!("pktline lines-differ {mode}"), format!("line {i}: got {} lines, expected {}; first difference got={:?} want={:?}", got_lines.len(), want_refs.len(), got_lines.get(i).map(short), want_refs.get(i).map(short)));
                }
                if ends_with_err && !run.got.iter().any(|g| matches!(g, Got::IoErr)) {
                    rep.violate(P, format!("pktline err-line-not-reported {mode}"), "an ERR line with fail_on_err_lines did not surface as an error".to_string());
                }
            } else if w.corrupt.is_none() {
                // truncation / hard error: a prefix of the lines, never a line that was not sent
                let got_lines: Vec<&Got> = run.got.iter().take_while(|g| !matches!(g, Got::IoErr | Got::DecodeErr)).collect();
                if got_lines.len() > want.len() || got_lines.iter().zip(want.iter()).any(|(a, b)| *a != b) {
                    rep.violate(P, format!("pktline line-not-sent {mode}"), format!("after a cut stream the reader returned a line that was not sent (got {} lines)", got_lines.len()));
                }
            }
        }
        "sidebands" | "sidebands-bufread" | "async-sidebands" | "line-to-string" => {
            if run.data == b"LOST-WAKEUP" {
                rep.violate(P, format!("pktline peek-or-wakeup {mode}"), "lost wake-up".to_string());
                return;
            }
            // expectation: until the first flush; ERR line with fail_on_err ends with an error
            let mut data = vec![];
            let mut progress = vec![];
            let mut err_expected = false;
            let mut terminated = false;
            for l in &w.lines {
                match l.kind {
                    Kind::Flush => {
                        terminated = true;
                        break;
                    }
                    Kind::Band1 => data.extend_from_slice(&payload(l)),
                    Kind::Band2 => progress.push((false, payload(l))),
                    Kind::Band3 => progress.push((true, payload(l))),
                    Kind::Err if w.fail_on_err => {
                        err_expected = true;
                        break;
                    }
                    _ => {
                        err_expected = true; // not a side-band line: decode_band fails
                        break;
                    }
                }
            }
            if benign {
                if mode == "line-to-string" {
                    // one band-1 line at a time as text
                    if !run.read_err && run.data != data {
                        rep.violate(P, format!("pktline sideband-data {mode}"), format!("{} bytes delivered, {} expected", run.data.len(), data.len()));
                    }
                } else if run.data != data {
                    rep.violate(P, format!("pktline sideband-data {mode}"), format!("{} data bytes delivered, {} expected (first difference at {})", run.data.len(), data.len(), run.data.iter().zip(data.iter()).position(|(a, b)| a != b).unwrap_or(run.data.len().min(data.len()))));
                }
                if run.progress != progress {
                    rep.violate(P, format!("pktline sideband-progress {mode}"), format!("progress messages {:?} expected {:?}", run.progress.iter().map(|p| (p.0, p.1.len())).collect::<Vec<_>>(), progress.iter().map(|p| (p.0, p.1.len())).collect::<Vec<_>>()));
                }
                // a stream that simply ends without a flush packet may be reported as an unexpected EOF
                let eof_without_flush = !terminated && !err_expected;
                if err_expected != run.read_err && !(eof_without_flush && run.read_err) {
                    rep.violate(P, format!("pktline sideband-error {mode}"), format!("error expected={err_expected} reported={}", run.read_err));
                }
            } else if w.corrupt.is_none() {
                if !data.starts_with(&run.data) {
                    rep.violate(P, format!("pktline line-not-sent {mode}"), "data delivered before a cut is not a prefix of what was sent".to_string());
                }
                if run.progress.len() > progress.len() || run.progress.iter().zip(progress.iter()).any(|(a, b)| a != b) {
                    rep.violate(P, format!("pktline line-not-sent {mode}"), "progress delivered before a cut was not sent".to_string());
                }
            }
        }
        _ => {}
    }
}
fn short(g: &&Got) -> String {
    match g {
        Got::Data(d) => format!("Data({} bytes, {:?}..)", d.len(), String::from_utf8_lossy(&d[..d.len().min(12)])),
        o => format!("{o:?}"),
    }
}

fn gen_len(r: &mut Rng, k: &Kind) -> usize {
    let oh = overhead(k);
    match r.below(100) {
        0..=59 => 1 + r.usize_below(40),
        60..=79 => 1 + r.usize_below(1200),
        80..=84 => MAX_DATA - oh,
        85..=87 => MAX_DATA - oh - 1,
        88..=89 => MAX_DATA - oh + 1, // too long: the encoder must refuse
        90..=92 => 32768 - oh,
        93..=95 => 65516 / 2,
        _ => 1 + r.usize_below(9000),
    }
}

fn generate(seed: u64) -> Workload {
    let mut r = Rng::stream(seed, STREAM_WORKLOAD);
    let modes = ["lines", "lines", "peek", "sidebands", "sidebands-bufread", "line-to-string", "async-lines", "async-sidebands", "encode", "async-encode", "writer-binary", "writer-text"];
    let mode = r.pick(&modes).to_string();
    let n = 1 + r.usize_below(8);
    let mut lines = vec![];
    let sb = mode.contains("sideband") || mode == "line-to-string";
    let writer = mode.starts_with("writer");
    let enc = mode.contains("encode");
    for _ in 0..n {
        let kind = if sb {
            match r.below(20) {
                0..=11 => Kind::Band1,
                12..=15 => Kind::Band2,
                16..=17 => Kind::Band3,
                18 => Kind::Err,
                _ => Kind::Flush,
            }
        } else if writer {
            if r.chance(100) {
                Kind::Flush
            } else {
                Kind::Data
            }
        } else {
            match r.below(20) {
                0..=7 => Kind::Data,
                8..=11 => Kind::Text,
                12 => Kind::Err,
                13 => Kind::Band1,
                14 => Kind::Band2,
                15 => Kind::Band3,
                16 | 17 => Kind::Flush,
                18 => Kind::Delim,
                _ => Kind::ResponseEnd,
            }
        };
        let mut len = gen_len(&mut r, &kind);
        if !enc && !writer {
            len = len.min(MAX_DATA - overhead(&kind)); // streams fed to readers contain only legal lines
        }
        if writer && r.chance(150) {
            len = MAX_DATA + 1 + r.usize_below(70_000); // the Writer must split
        }
        if mode == "line-to-string" && kind == Kind::Band1 {
            len = len.min(2000);
        }
        if matches!(kind, Kind::Flush | Kind::Delim | Kind::ResponseEnd) {
            len = 0;
        }
        lines.push(Line { kind, len, fill: r.below(26) as u8 });
    }
    let total: usize = lines.iter().map(|l| wire(l).len()).sum();
    let mut plan = IoPlan { max_chunk: *r.pick(&[0usize, 1, 2, 3, 5, 64, 4096, 70_000]), intr_permille: *r.pick(&[0u32, 0, 50, 300]), pending_permille: *r.pick(&[0u32, 100, 500]), ..Default::default() };
    if total > 3_000 && plan.max_chunk < 64 && plan.max_chunk != 0 {
        plan.max_chunk = *r.pick(&[64usize, 1000, 4096]);
    }
    if total > 3_000 {
        plan.intr_permille = plan.intr_permille.min(50);
        plan.pending_permille = plan.pending_permille.min(100);
    }
    let mut write_plan = IoPlan { max_chunk: *r.pick(&[0usize, 1, 3, 64, 5000]), intr_permille: *r.pick(&[0u32, 50, 300]), pending_permille: *r.pick(&[0u32, 100, 500]), err_at: if r.chance(120) { Some(r.below(total as u64 + 1)) } else { None }, ..Default::default() };
    if total > 3_000 && write_plan.max_chunk < 64 && write_plan.max_chunk != 0 {
        write_plan.max_chunk = *r.pick(&[64usize, 1000, 5000]);
        write_plan.intr_permille = write_plan.intr_permille.min(50);
        write_plan.pending_permille = write_plan.pending_permille.min(100);
    }
    let mut corrupt = None;
    if !enc && !writer {
        match r.below(10) {
            0 => plan.eof_at = Some(r.below(total as u64 + 1)),
            1 => plan.err_at = Some(r.below(total as u64 + 1)),
            2 | 3 => {
                // corrupted length prefix: boundary values and arbitrary bytes
                let idx = r.usize_below(lines.len());
                let pfx: [u8; 4] = match r.below(8) {
                    0 => *b"0003",
                    1 => *b"0004",
                    2 => {
                        let v = 0xfff0 + r.below(16) as u16;
                        let s = format!("{v:04x}");
                        s.as_bytes().try_into().unwrap()
                    }
                    3 => *b"ffff",
                    4 => *b"fff1",
                    5 => {
                        let v = r.below(0x10000) as u16;
                        let s = format!("{v:04x}");
                        s.as_bytes().try_into().unwrap()
                    }
                    6 => *b"FFFF",
                    _ => {
                        let b = r.bytes(4);
                        [b[0], b[1], b[2], b[3]]
                    }
                };
                corrupt = Some((idx, pfx));
                // make sure enough bytes follow so that an oversized prefix is actually read
                lines.push(Line { kind: Kind::Data, len: MAX_DATA, fill: 3 });
                lines.push(Line { kind: Kind::Data, len: 100, fill: 4 });
            }
            _ => {}
        }
    }
    Workload { lines, mode, fail_on_err: r.chance(500), stop_at_flush: r.chance(500), read_buf: *r.pick(&[1usize, 2, 7, 64, 1000, 70_000]), plan, write_plan, corrupt }
}

impl Scenario for PktLine {
    fn name(&self) -> &'static str {
        "pktline"
    }
    fn properties(&self) -> &'static [&'static str] {
        &[P]
    }
    fn isolated(&self) -> bool {
        false
    }
    fn jobs_hint(&self) -> usize {
        16
    }
    fn runs(&self, tier: Tier, _p: &str) -> u64 {
        super::tier_pick(tier, 400_000, 20_000_000)
    }
    fn generate(&self, seed: u64, _tier: Tier, _p: &str) -> Value {
        serde_json::to_value(generate(seed)).unwrap()
    }
    fn execute(&self, wv: &Value, ctx: &ExecCtx) -> Report {
        let mut rep = Report::default();
        let w: Workload = match serde_json::from_value(wv.clone()) {
            Ok(w) => w,
            Err(e) => {
                rep.harness_error = Some(format!("bad workload: {e}"));
                return rep;
            }
        };
        let replay = ctx.replay.clone();
        let seed = ctx.seed;
        let res = catch_panics(|| execute_inner(&w, seed, replay));
        match res {
            Ok((run, ch)) => {
                oracle(&w, &run, &mut rep);
                let c = ch.borrow();
                rep.decisions = c.rec.clone();
                rep.n_decisions = c.rec.len() as u64;
                rep.faults = c.faults.clone();
                rep.sched_hash = Fnv::of(&c.rec.iter().flat_map(|d| d.to_le_bytes()).collect::<Vec<u8>>());
                let mut h = Fnv::default();
                h.write(format!("{:?}|{}|{:?}|{}", run.got.len(), run.data.len(), run.progress.len(), run.read_err).as_bytes());
                rep.log_hash = h.0 ^ rep.sched_hash;
                rep.summary = format!("{} {} lines -> {} items, {} data bytes, {} progress, err={}", w.mode, w.lines.len(), run.got.len(), run.data.len(), run.progress.len(), run.read_err);
            }
            Err(msgs) => {
                let loc = msgs.first().map(|m| m.split(" @ ").nth(1).unwrap_or("").to_string()).unwrap_or_default();
                let loc = loc.rsplit('/').next().unwrap_or("").to_string();
                let what = if w.corrupt.is_some() { "corrupt-prefix" } else if !w.plan.benign() { "cut-stream" } else { "legal-stream" };
                rep.violate(P, format!("pktline panic {what} at {loc} | {}", w.mode), format!("{msgs:?} corrupt={:?}", w.corrupt.map(|c| String::from_utf8_lossy(&c.1).into_owned())));
                rep.summary = format!("{} panicked", w.mode);
            }
        }
        if w.corrupt.is_some() {
            rep.fault("corrupt-prefix");
        }
        if w.plan.max_chunk != 0 || w.plan.intr_permille > 0 {
            rep.nontrivial = true;
        }
        rep.nontrivial = rep.nontrivial || w.lines.len() >= 2;
        rep.ops = w.lines.len() as u64;
        rep.states.push(Fnv::of(w.mode.as_bytes()) ^ (w.lines.len() as u64));
        rep
    }
    fn shrink(&self, wv: &Value) -> Vec<Value> {
        let w: Workload = match serde_json::from_value(wv.clone()) {
            Ok(w) => w,
            Err(_) => return vec![],
        };
        let mut out = vec![];
        for i in (0..w.lines.len()).rev() {
            if w.lines.len() > 1 {
                let mut c = w.clone();
                c.lines.remove(i);
                if let Some((idx, p)) = c.corrupt {
                    if idx == i {
                        continue;
                    }
                    if idx > i {
                        c.corrupt = Some((idx - 1, p));
                    }
                }
                out.push(c);
            }
        }
        for i in 0..w.lines.len() {
            if w.lines[i].len > 1 {
                for nl in [1, w.lines[i].len / 2] {
                    let mut c = w.clone();
                    c.lines[i].len = nl;
                    out.push(c);
                }
            }
        }
        for f in [|p: &mut IoPlan| p.max_chunk = 0, |p: &mut IoPlan| p.intr_permille = 0, |p: &mut IoPlan| p.pending_permille = 0] {
            let mut c = w.clone();
            f(&mut c.plan);
            f(&mut c.write_plan);
            out.push(c);
        }
        out.into_iter().map(|c| serde_json::to_value(c).unwrap()).collect()
    }
    fn rule(&self, _p: &str) -> String {
        "line sequences (1..8 lines of every kind, lengths 1..65516 boundary-weighted, oversized for the encoders) through 12 reader/writer modes (blocking and async) x stream fault plans (chunk sizes 1..all, Interrupted, Pending, EOF/error at offset k, corrupted 4-byte length prefixes incl. 0003/0004/fff0..ffff/non-hex); non-trivial = >=2 lines or any chunking/fault; distinct = distinct (workload, decision list)".into()
    }
    fn real_stub(&self) -> Value {
        json!({
            "real": ["gix-packetline-blocking (encode fns, Writer, StreamingPeekableIter, WithSidebands Read/BufRead/read_line_to_string)", "gix-packetline with async-io (encode fns, StreamingPeekableIter, WithSidebands AsyncRead)"],
            "simulated": ["byte source/sink behaviour: chunking, Interrupted, Poll::Pending + wake, early EOF, hard errors, corrupted prefixes", "single-threaded executor with lost-wake-up detection"],
            "stub": [],
        })
    }
    fn assumptions(&self, _p: &str) -> Vec<String> {
        vec!["the oracle has its own 20-line pkt-line encoder/decoder; for corrupted prefixes only 'no panic, terminates' is demanded (garbage in may legitimately give other lines)".into()]
    }
}
