//! C42 — the worktree path stack stays consistent across failures (DESIGN §4).
//! The `gix_fs::stack::Delegate` trait is the seam: `push` fails on a seeded fault plan; a shadow stack built from the
//! notifications is compared with the stack's own view after every call.
use crate::driver::{ExecCtx, Report, Scenario, Tier};
use crate::io::catch_panics;
use crate::prng::{Fnv, Rng, STREAM_WORKLOAD};
use serde::{Deserialize, Serialize};
use serde_json::{json, Value};
use std::path::{Path, PathBuf};

pub struct PathStack;
const P: &str = "C42";
const COMPS: &[&str] = &["a", "b", "c", "ab", "a.b"];

#[derive(Clone, Debug, Serialize, Deserialize)]
pub struct Workload {
    pub paths: Vec<String>,
    /// reject `push` of this component name (at any depth)
    pub reject_component: Option<String>,
    /// reject the n-th `push` call (0-based), independent of the component
    pub reject_nth_push: Vec<u64>,
    /// reject only leaf pushes / only directory pushes / both
    pub reject_when: u8,
}

struct Rec<'a> {
    w: &'a Workload,
    pushes: u64,
    /// directories for which push_directory was notified and not yet popped
    shadow: Vec<PathBuf>,
    log: Vec<String>,
    pop_on_empty: bool,
    faults: u64,
}
impl gix_fs::stack::Delegate for Rec<'_> {
    fn push_directory(&mut self, stack: &gix_fs::Stack) -> std::io::Result<()> {
        self.shadow.push(stack.current().to_owned());
        self.log.push(format!("push_dir {:?}", stack.current_relative()));
        Ok(())
    }
    fn push(&mut self, is_last_component: bool, stack: &gix_fs::Stack) -> std::io::Result<()> {
        let n = self.pushes;
        self.pushes += 1;
        let comp = stack.current_relative().components().next_back().map(|c| c.as_os_str().to_string_lossy().into_owned()).unwrap_or_default();
        let kind_ok = match self.w.reject_when {
            0 => true,
            1 => is_last_component,
            _ => !is_last_component,
        };
        let reject = kind_ok && (self.w.reject_component.as_deref() == Some(comp.as_str()) || self.w.reject_nth_push.contains(&n));
        self.log.push(format!("push{} {:?}{}", if is_last_component { "(leaf)" } else { "(dir)" }, stack.current_relative(), if reject { " REJECT" } else { "" }));
        if reject {
            self.faults += 1;
            return Err(std::io::Error::new(std::io::ErrorKind::Other, "injected push rejection"));
        }
        Ok(())
    }
    fn pop_directory(&mut self) {
        self.log.push("pop_dir".into());
        if self.shadow.pop().is_none() {
            self.pop_on_empty = true;
        }
    }
}

fn is_component_prefix(prefix: &Path, of: &Path) -> bool {
    let mut a = prefix.components();
    let mut b = of.components();
    loop {
        match (a.next(), b.next()) {
            (None, _) => return true,
            (Some(x), Some(y)) if x == y => continue,
            _ => return false,
        }
    }
}

fn run(w: &Workload, rep: &mut Report) -> (u64, u64) {
    let root = PathBuf::from("/gixsim-root");
    let mut stack = gix_fs::Stack::new(root.clone());
    let mut d = Rec { w, pushes: 0, shadow: vec![], log: vec![], pop_on_empty: false, faults: 0 };
    let mut state = Fnv::default();
    for (i, p) in w.paths.iter().enumerate() {
        let rel = Path::new(p);
        let log_from = d.log.len();
        let res = stack.make_relative_path_current(rel, &mut d);
        let what = if res.is_ok() { "ok" } else { "rejected" };
        let ctx = |d: &Rec| format!("call {i} make_relative_path_current({p:?}) -> {what}; notifications: {:?}; open directories: {:?}; current_relative={:?}", &d.log[log_from..], d.shadow, stack.current_relative());
        // (1) current == root + current_relative
        if stack.current() != root.join(stack.current_relative()) {
            rep.violate(P, format!("pathstack current!=root+relative after-{what}"), ctx(&d));
            break;
        }
        // (2)/(3)
        if res.is_ok() {
            if stack.current_relative() != rel {
                rep.violate(P, "pathstack current-not-last-path".to_string(), ctx(&d));
                break;
            }
        } else if !is_component_prefix(stack.current_relative(), rel) || stack.current_relative() == rel {
            rep.violate(P, "pathstack after-rejection-not-a-proper-prefix".to_string(), ctx(&d));
            break;
        }
        // (5)
        if d.pop_on_empty {
            rep.violate(P, "pathstack pop-without-push".to_string(), ctx(&d));
            break;
        }
        // (4) balance: open directories = root + every proper ancestor of current (+ optionally current itself), no duplicates
        let cur = stack.current().to_owned();
        let mut seen = std::collections::BTreeSet::new();
        let mut bad = None;
        for s in &d.shadow {
            if !seen.insert(s.clone()) {
                bad = Some(format!("directory-pushed-twice{}", if *s == root { " root" } else { "" }));
                break;
            }
            if !is_component_prefix(s, &cur) {
                bad = Some("stale-directory-left-open".to_string());
                break;
            }
        }
        if bad.is_none() {
            let mut anc = cur.parent();
            while let Some(a) = anc {
                if a.starts_with(&root) && !seen.contains(a) {
                    bad = Some("ancestor-directory-not-open".to_string());
                    break;
                }
                if a == root {
                    break;
                }
                anc = a.parent();
            }
        }
        if let Some(b) = bad {
            rep.violate(P, format!("pathstack unbalanced {b} after-{what}"), ctx(&d));
            break;
        }
        state.write(stack.current_relative().to_string_lossy().as_bytes());
        state.write(&[res.is_ok() as u8, d.shadow.len() as u8]);
    }
    rep.states.push(state.0);
    (d.faults, d.pushes)
}

fn generate(seed: u64) -> Workload {
    let mut r = Rng::stream(seed, STREAM_WORKLOAD);
    let cap = if r.chance(800) { 8 } else { 40 };
    let n = 1 + r.usize_below(cap);
    let mut paths = vec![];
    let mut last: Vec<String> = vec![];
    for _ in 0..n {
        // bias toward sharing a prefix with the previous path
        let keep = if last.is_empty() { 0 } else { r.usize_below(last.len() + 1) };
        let mut comps: Vec<String> = last[..keep.min(last.len())].to_vec();
        let depth = 1 + r.usize_below(4);
        while comps.len() < depth {
            comps.push(r.pick(COMPS).to_string());
        }
        comps.truncate(depth.max(1));
        if comps == last {
            let i = comps.len() - 1;
            comps[i] = r.pick(COMPS).to_string();
        }
        paths.push(comps.join("/"));
        last = comps;
    }
    let reject_component = if r.chance(600) { Some(r.pick(COMPS).to_string()) } else { None };
    let mut reject_nth_push = vec![];
    for _ in 0..r.below(3) {
        reject_nth_push.push(r.below(3 * n as u64 + 1));
    }
    Workload { paths, reject_component, reject_nth_push, reject_when: r.below(3) as u8 }
}

impl Scenario for PathStack {
    fn name(&self) -> &'static str {
        "pathstack"
    }
    fn properties(&self) -> &'static [&'static str] {
        &[P]
    }
    fn isolated(&self) -> bool {
        false
    }
    fn jobs_hint(&self) -> usize {
        16
    }
    fn runs(&self, tier: Tier, _p: &str) -> u64 {
        super::tier_pick(tier, 400_000, 20_000_000)
    }
    fn generate(&self, seed: u64, _t: Tier, _p: &str) -> Value {
        serde_json::to_value(generate(seed)).unwrap()
    }
    fn execute(&self, wv: &Value, _ctx: &ExecCtx) -> Report {
        let mut rep = Report::default();
        let w: Workload = match serde_json::from_value(wv.clone()) {
            Ok(w) => w,
            Err(e) => {
                rep.harness_error = Some(format!("bad workload: {e}"));
                return rep;
            }
        };
        let mut inner = Report::default();
        match catch_panics(|| run(&w, &mut inner)) {
            Ok((faults, pushes)) => {
                rep = inner;
                if faults > 0 {
                    rep.faults.insert("push-rejected".into(), faults);
                }
                rep.ops = w.paths.len() as u64;
                rep.nontrivial = w.paths.len() >= 2 || faults > 0;
                rep.summary = format!("{} paths, {} pushes, {} rejected", w.paths.len(), pushes, faults);
            }
            Err(msgs) => {
                rep.violate(P, format!("pathstack panic | {}", msgs.first().map(|m| m.rsplit('/').next().unwrap_or("").to_string()).unwrap_or_default()), format!("{msgs:?}"));
            }
        }
        let mut h = Fnv::default();
        h.write(rep.summary.as_bytes());
        for s in &rep.states {
            h.write_u64(*s);
        }
        rep.log_hash = h.0;
        // the fault plan is part of the workload here (no run-time decisions)
        rep.sched_hash = Fnv::of(serde_json::to_string(&(&w.reject_component, &w.reject_nth_push, w.reject_when)).unwrap().as_bytes());
        rep
    }
    fn shrink(&self, wv: &Value) -> Vec<Value> {
        let w: Workload = match serde_json::from_value(wv.clone()) {
            Ok(w) => w,
            Err(_) => return vec![],
        };
        let mut out = vec![];
        for i in (0..w.paths.len()).rev() {
            if w.paths.len() > 1 {
                let mut c = w.clone();
                c.paths.remove(i);
                out.push(c);
            }
        }
        for i in 0..w.paths.len() {
            let comps: Vec<&str> = w.paths[i].split('/').collect();
            if comps.len() > 1 {
                let mut c = w.clone();
                c.paths[i] = comps[..comps.len() - 1].join("/");
                out.push(c);
                let mut c = w.clone();
                c.paths[i] = comps[1..].join("/");
                out.push(c);
            }
        }
        for i in 0..w.reject_nth_push.len() {
            let mut c = w.clone();
            c.reject_nth_push.remove(i);
            out.push(c);
        }
        if w.reject_component.is_some() && !w.reject_nth_push.is_empty() {
            let mut c = w.clone();
            c.reject_component = None;
            out.push(c);
        }
        out.into_iter().map(|c| serde_json::to_value(c).unwrap()).collect()
    }
    fn rule(&self, _p: &str) -> String {
        "sequences of 1..40 relative paths over components {a,b,c,ab,a.b} depth<=4 (biased to share prefixes) x a push-rejection plan (by component name, by n-th push call, leaf/directory/both); non-trivial = >=2 paths or a rejection fired; distinct = distinct (path sequence, fault plan)".into()
    }
    fn real_stub(&self) -> Value {
        json!({
            "real": ["gix_fs::Stack::make_relative_path_current and accessors"],
            "simulated": ["delegate failures (the Delegate trait is the fault seam)"],
            "stub": ["recording delegate (shadow stack of open directories)"],
        })
    }
    fn assumptions(&self, _p: &str) -> Vec<String> {
        vec!["only `push` is rejected (the property says 'pushes may be rejected'); push_directory failures and the empty path are not generated".into(), "the gix_worktree::Stack layer (attribute/ignore state) is not driven; its delegate only forwards these notifications".into()]
    }
}
