//! C24 (schedule part) — index decode is independent of the thread limit (DESIGN §4).
//! Indices written by git (versions 2/3/4, with and without EOIE/IEOT, untracked cache, conflicts, resolve-undo,
//! intent-to-add, skip-worktree, sparse) are decoded with thread limits 1..16 under seeded schedules and compared with
//! the serial decode and with `git ls-files --stage`.
use crate::driver::{ExecCtx, Report, Scenario, Tier};
use crate::prng::{Fnv, Rng, STREAM_SWARM, STREAM_WORKLOAD};
use crate::rt;
use serde::{Deserialize, Serialize};
use serde_json::{json, Value};
use std::path::Path;
use std::sync::{Arc, Mutex};

pub struct IndexThreads;
const P: &str = "C24";
const N_FIX: usize = 10;

#[derive(Clone, Debug, Serialize, Deserialize)]
pub struct Workload {
    pub fixture: usize,
    pub thread_limit: usize,
    pub min_ext_block: usize,
    pub sched: Value,
}

const FIXTURE_SH: &str = r#"
set -e
export GIT_CONFIG_NOSYSTEM=1 GIT_CONFIG_GLOBAL=/dev/null HOME=/nonexistent TZ=UTC LC_ALL=C
export GIT_AUTHOR_NAME=A GIT_AUTHOR_EMAIL=a@example.com GIT_COMMITTER_NAME=A GIT_COMMITTER_EMAIL=a@example.com
export GIT_AUTHOR_DATE="1700000001 +0000" GIT_COMMITTER_DATE="1700000001 +0000"
cd "$1"
git init -q w; cd w
git config gc.auto 0; git config core.splitIndex false; git config index.skipHash false
for d in a a/b a/b/c d d/e f-dir g.h "sp ace"; do mkdir -p "$d"; for i in $(seq 1 22); do echo "content $d $i" > "$d/file-$i.txt"; done; done
for i in $(seq 1 40); do echo "top $i" > top-$i; done
chmod +x top-1 a/file-1.txt
ln -s top-2 link-1
git add -A; git commit -q -m base
save() { cp .git/index "../idx-$1"; git ls-files --stage > "../ls-$1.txt"; git ls-files --resolve-undo > "../ru-$1.txt"; }
# 0: v2, no threads
git config index.threads 1; git config index.version 2; git update-index --index-version 2; git update-index --refresh; save 0
# 1: v2 with EOIE + IEOT (4 blocks)
git config index.threads 4; touch top-1; git update-index --refresh; git update-index --index-version 2; save 1
# 2: v4 with IEOT (8 blocks)
git config index.threads 8; git update-index --index-version 4; save 2
# 3: v4 without threads
git config index.threads 1; git update-index --index-version 4 --force-write-index 2>/dev/null || git update-index --index-version 4; touch top-2; git update-index --refresh; save 3
# 4: v3: intent-to-add + skip-worktree (extended flags), IEOT 3 blocks
git config index.threads 3; git update-index --index-version 2; echo new > ita-file; git add -N ita-file; git update-index --skip-worktree top-3 a/file-2.txt; save 4
# 5: untracked cache + fsmonitor-less, threads 5
git config index.threads 5; git config core.untrackedCache true; echo u > untracked-1; mkdir -p udir; echo u > udir/u2; git update-index --untracked-cache; git status > /dev/null; save 5
# 6: conflicts (stages 1..3) + resolve-undo, threads 4
git config index.threads 4
git checkout -q -b side; echo side > top-5; echo side > a/file-3.txt; git commit -q -am side
git checkout -q master 2>/dev/null || git checkout -q main; echo main > top-5; echo main > a/file-3.txt; git commit -q -am main
git merge side > /dev/null 2>&1 || true
echo resolved > top-5; git add top-5
save 6
# 7: after resolving everything (resolve-undo for both), v4
echo resolved > a/file-3.txt; git add a/file-3.txt; git update-index --index-version 4; save 7
# 8: many small blocks: threads 16
git config index.threads 16; git update-index --index-version 2; touch top-7; git update-index --refresh; save 8
# 9: resolved conflicts whose resolve-undo records lack stages: both added, deleted by us, deleted by them, plus a full one
git config index.threads 4
git checkout -q -b side2; echo side > both-added; echo side > top-9; git rm -q top-10; echo side > top-11; echo side > top-12; git add -A; git commit -q -m side2
git checkout -q master 2>/dev/null || git checkout -q main; echo main > both-added; git rm -q top-9; echo main > top-10; echo main > top-11; git add -A; git commit -q -m main2
git merge side2 > /dev/null 2>&1 || true
echo r > both-added; git add both-added; git rm -q top-9 2>/dev/null || true; echo r > top-10; git add top-10; echo r > top-11; git add top-11
save 9
"#;

fn dump(s: &gix_index::State) -> Vec<String> {
    let mut out = vec![];
    out.push(format!("version={:?} sparse={} eoie={} ieot={}", s.version(), s.is_sparse(), s.had_end_of_index_marker(), s.had_offset_table()));
    for e in s.entries() {
        out.push(format!("{} stage={:?} mode={:o} id={} flags={:?} stat={:?}", e.path(s), e.stage(), e.mode.bits(), e.id, e.flags, e.stat));
    }
    out.push(format!("tree={:?}", s.tree()));
    out.push(format!("resolve_undo={:?}", s.resolve_undo().map(Vec::len)));
    out.push(format!("link={:?}", s.link().is_some()));
    out.push(format!("untracked={:?}", s.untracked().is_some()));
    out
}
fn decode(data: &[u8], thread_limit: usize, min_ext: usize) -> Result<Vec<String>, String> {
    let (state, _checksum) = gix_index::State::from_bytes(
        data,
        filetime::FileTime::from_unix_time(0, 0),
        gix_hash::Kind::Sha1,
        gix_index::decode::Options { thread_limit: Some(thread_limit), min_extension_block_in_bytes_for_threading: min_ext, expected_checksum: None },
    )
    .map_err(|e| e.to_string())?;
    Ok(dump(&state))
}

impl Scenario for IndexThreads {
    fn name(&self) -> &'static str {
        "index_threads"
    }
    fn properties(&self) -> &'static [&'static str] {
        &[P]
    }
    fn jobs_hint(&self) -> usize {
        4
    }
    fn runs(&self, tier: Tier, _p: &str) -> u64 {
        super::tier_pick(tier, 4_000, 300_000)
    }
    fn worker_init(&self, dir: &Path, _tier: Tier) {
        let out = std::process::Command::new("bash").arg("-c").arg(FIXTURE_SH).arg("fixture").arg(dir).output().expect("bash");
        if !out.status.success() {
            eprintln!("gixsim: index fixture script failed: {} {}", String::from_utf8_lossy(&out.stdout), String::from_utf8_lossy(&out.stderr));
            std::process::exit(2);
        }
    }
    fn generate(&self, seed: u64, _t: Tier, _p: &str) -> Value {
        let mut r = Rng::stream(seed, STREAM_WORKLOAD);
        let mut sw = Rng::stream(seed, STREAM_SWARM);
        serde_json::to_value(Workload { fixture: r.usize_below(N_FIX), thread_limit: *r.pick(&[2usize, 2, 3, 4, 5, 8, 16]), min_ext_block: *r.pick(&[0usize, 0, 1 << 20]), sched: super::swarm_policy_edges(&mut sw, 150, 20_000) }).unwrap()
    }
    fn execute(&self, wv: &Value, ctx: &ExecCtx) -> Report {
        let mut rep = Report::default();
        let w: Workload = match serde_json::from_value(wv.clone()) {
            Ok(w) => w,
            Err(e) => {
                rep.harness_error = Some(format!("bad workload: {e}"));
                return rep;
            }
        };
        let data = match std::fs::read(ctx.worker_dir.join(format!("idx-{}", w.fixture))) {
            Ok(d) => d,
            Err(e) => {
                rep.harness_error = Some(format!("fixture idx-{}: {e}", w.fixture));
                return rep;
            }
        };
        let serial = decode(&data, 1, 1 << 30);
        let out: Arc<Mutex<Option<Result<Vec<String>, String>>>> = Arc::new(Mutex::new(None));
        let mut cfg = ctx.rt_cfg();
        super::apply_swarm(&mut cfg, wv);
        cfg.max_steps = 300_000;
        let (o2, d2, w2) = (out.clone(), data.clone(), w.clone());
        let o = rt::run(cfg, move || {
            let r = decode(&d2, w2.thread_limit, w2.min_ext_block);
            *o2.lock().unwrap() = Some(r);
        });
        rep.absorb_outcome(&o);
        let shape = format!("fixture={} ", w.fixture);
        if o.deadlock || o.budget_exceeded {
            rep.violate(P, format!("index {} {shape}", if o.deadlock { "deadlock" } else { "livelock" }), format!("{:?}", o.blocked));
        } else if !o.panics.is_empty() {
            rep.violate(P, format!("index panic {shape}| {}", o.panics[0].rsplit('/').next().unwrap_or("")), format!("{:?}", o.panics));
        } else {
            let threaded = out.lock().unwrap().take();
            match (serial, threaded) {
                (Ok(s), Some(Ok(t))) => {
                    if s != t {
                        let i = s.iter().zip(t.iter()).position(|(a, b)| a != b).unwrap_or(s.len().min(t.len()));
                        rep.violate(P, format!("index threaded-decode-differs {shape}"), format!("thread_limit {} vs 1: first difference at line {i}: serial {:?} threaded {:?}", w.thread_limit, s.get(i), t.get(i)));
                    } else {
                        // git's view: mode, id, stage, path of every entry
                        let ls = std::fs::read_to_string(ctx.worker_dir.join(format!("ls-{}.txt", w.fixture))).unwrap_or_default();
                        let git: Vec<String> = ls.lines().filter_map(|l| {
                            let (meta, path) = l.split_once('\t')?;
                            let mut it = meta.split(' ');
                            let (mode, id, stage) = (it.next()?, it.next()?, it.next()?);
                            Some(format!("{path} {stage} {} {id}", u32::from_str_radix(mode, 8).ok()?))
                        }).collect();
                        let ours: Vec<String> = t.iter().filter(|l| l.contains(" stage=")).filter_map(|l| {
                            let path = l.split(" stage=").next()?;
                            let stage = l.split(" stage=").nth(1)?.split(' ').next()?;
                            let stage = match stage { "Unconflicted" => "0", "Base" => "1", "Ours" => "2", "Theirs" => "3", s => s };
                            let mode = l.split(" mode=").nth(1)?.split(' ').next()?;
                            let id = l.split(" id=").nth(1)?.split(' ').next()?;
                            Some(format!("{path} {stage} {} {id}", u32::from_str_radix(mode, 8).ok()?))
                        }).collect();
                        if git != ours {
                            let i = git.iter().zip(ours.iter()).position(|(a, b)| a != b).unwrap_or(git.len().min(ours.len()));
                            rep.violate(P, format!("index differs-from-git-ls-files {shape}"), format!("{} entries vs git's {}; first difference at {i}: ours {:?} git {:?}", ours.len(), git.len(), ours.get(i), git.get(i)));
                        }
                        // git's view of the resolve-undo extension. Its records are private in gix-index (no accessor, no Debug):
                        // what can be observed is whether the extension decoded and how many paths it holds.
                        let ru = std::fs::read_to_string(ctx.worker_dir.join(format!("ru-{}.txt", w.fixture))).unwrap_or_default();
                        let git_paths: std::collections::BTreeSet<&str> = ru.lines().filter_map(|l| l.split_once('\t').map(|x| x.1)).collect();
                        let ours = t.iter().find_map(|l| l.strip_prefix("resolve_undo=")).unwrap_or("None").to_string();
                        let want = if git_paths.is_empty() { "None".to_string() } else { format!("Some({})", git_paths.len()) };
                        if ours != want {
                            rep.violate(P, format!("index resolve-undo-differs-from-git {shape}"), format!("git ls-files --resolve-undo lists {} paths, the decoded extension reports {ours}", git_paths.len()));
                        } else if !git_paths.is_empty() {
                            rep.probe("resolve-undo-path-count-equals-git");
                        }
                        if t[0].contains("ieot=true") {
                            rep.probe("decoded-with-offset-table");
                        }
                        if t[0].contains("eoie=true") {
                            rep.probe("decoded-with-end-of-index-marker");
                        }
                    }
                }
                (Err(e), _) => rep.harness_error = Some(format!("serial decode of git-written fixture {} failed: {e}", w.fixture)),
                (_, Some(Err(e))) => rep.violate(P, format!("index threaded-decode-fails {shape}"), format!("thread_limit {}: {e}", w.thread_limit)),
                (_, None) => rep.violate(P, format!("index no-result {shape}"), "decode did not return".to_string()),
            }
        }
        rep.ops = 1;
        rep.nontrivial = rep.nontrivial || o.threads > 1;
        let st = Fnv::of(format!("{shape} t={} ext={}", w.thread_limit, w.min_ext_block).as_bytes());
        rep.states.push(st);
        rep.log_hash ^= st;
        rep.summary = format!("{shape}thread_limit={} min_ext={} threads_seen={}", w.thread_limit, w.min_ext_block, o.threads);
        rep
    }
    fn rule(&self, _p: &str) -> String {
        "9 indices written by git (v2, v2+EOIE/IEOT with 4 and 16 blocks, v4 with and without IEOT, extended flags (intent-to-add, skip-worktree), untracked cache, conflicts with resolve-undo, resolved) x thread limits {2,3,4,5,8,16} x extension-threading threshold {0, 1 MiB} x seeded schedules with basic-block pre-emption; non-trivial = more than one thread ran or >=2 context switches; distinct = distinct (workload, decision list)".into()
    }
    fn real_stub(&self) -> Value {
        json!({
            "real": ["gix_index::State::from_bytes (entries, EOIE/IEOT chunked decode, extensions in their own thread)", "gix-features parallel (InOrderIter, scoped threads)", "git update-index / ls-files as fixture factory and oracle"],
            "simulated": ["thread scheduling incl. basic-block pre-emption inside gix-index/gix-features"],
            "stub": [],
        })
    }
    fn assumptions(&self, _p: &str) -> Vec<String> {
        vec!["schedule part only: the input side of C24 (random worktrees, every extension's content vs. an independent reader) is input-only and not claimed; agreement with git is checked for mode/id/stage/path of the 9 fixtures".into(), "results are joined in spawn order, so schedule independence is nearly structural; the check exists to keep it so".into()]
    }
}
