//! C12 — object lookups stay correct while the object directory is repacked (DESIGN §4, core).
//! Reader threads with their own handles look objects up while a repacking actor walks the object directory through
//! configurations prepared by git, adding complete new containers before removing old ones, one file per step.
use crate::driver::{ExecCtx, Report, Scenario, Tier};
use crate::fsx;
use crate::prng::{Fnv, Rng, STREAM_SWARM, STREAM_WORKLOAD};
use crate::rt;
use gix_hash::ObjectId;
use serde::{Deserialize, Serialize};
use serde_json::{json, Value};
use std::collections::{BTreeMap, BTreeSet};
use std::path::{Path, PathBuf};
use std::sync::{Arc, Mutex};

pub struct OdbRepack;
const P: &str = "C12";
const N_CFG: usize = 7;

#[derive(Clone, Debug, Serialize, Deserialize)]
pub struct Reader {
    pub refresh: bool,
    pub stable: bool,
    /// 0 none, 1 static LRU (tiny), 2 memory capped, 3 object cache + static LRU
    pub cache: u8,
    /// (op, object): op 0 find, 1 contains, 2 header; object = index into the universe, or >= 1000 = absent id
    pub ops: Vec<(u8, usize)>,
}
#[derive(Clone, Debug, Serialize, Deserialize)]
pub struct Workload {
    pub start_cfg: usize,
    pub path: Vec<usize>,
    pub slots_extra: i32,
    pub use_midx: bool,
    pub readers: Vec<Reader>,
    pub sched: Value,
}

// ---- fixtures -------------------------------------------------------------------------------------------------------

const FIXTURE_SH: &str = r#"
set -e
export GIT_CONFIG_NOSYSTEM=1 GIT_CONFIG_GLOBAL=/dev/null HOME=/nonexistent TZ=UTC LC_ALL=C
export GIT_AUTHOR_NAME=A GIT_AUTHOR_EMAIL=a@example.com GIT_COMMITTER_NAME=A GIT_COMMITTER_EMAIL=a@example.com
cd "$1"
git init -q w
cd w
git config gc.auto 0
git config pack.threads 1
git config core.compression 1
base() { for i in $(seq 1 40); do echo "line $i of the shared base text which makes deltas attractive $1"; done; }
for c in 1 2 3 4 5 6; do
  for f in f1 f2 f3; do base "$f" > $f; echo "change $c in $f" >> $f; [ $c -gt 3 ] && echo "second change $c" >> $f; done
  mkdir -p d; base d > d/g; echo "d $c" >> d/g
  echo "small $c" > s$c
  git add -A
  GIT_AUTHOR_DATE="170000000$c +0000" GIT_COMMITTER_DATE="170000000$c +0000" git commit -q -m "c$c"
done
GIT_COMMITTER_DATE="1700000009 +0000" git tag -a -m "tag" v1
git cat-file --batch-all-objects --batch > ../universe.bin
snapshot() { mkdir -p "../cfg$1"; cp -r .git/objects "../cfg$1/objects"; rm -rf "../cfg$1/objects/info"; }
# cfg0: everything loose
snapshot 0
git rev-list --all --objects | cut -d' ' -f1 > ../all.txt
git rev-parse v1 >> ../all.txt
n=$(wc -l < ../all.txt)
third=$(( (n + 2) / 3 ))
split -l $third ../all.txt ../part.
# cfg1: one third packed, the rest loose
git pack-objects -q .git/objects/pack/pack < ../part.aa > /dev/null
git prune-packed -q
snapshot 1
# cfg2: three packs, nothing loose
git pack-objects -q .git/objects/pack/pack < ../part.ab > /dev/null
git pack-objects -q .git/objects/pack/pack < ../part.ac > /dev/null
git prune-packed -q
snapshot 2
# cfg3: three packs + multi-pack-index
git multi-pack-index write > /dev/null 2>&1
snapshot 3
# cfg4: one big pack (deltas across everything)
rm -f .git/objects/pack/multi-pack-index
git repack -a -d -q --window=10 --depth=10
snapshot 4
# cfg5: one big pack + multi-pack-index
git multi-pack-index write > /dev/null 2>&1
snapshot 5
# cfg6: a differently ordered big pack (other offsets) next to nothing else
rm -f .git/objects/pack/multi-pack-index
git repack -a -d -q -f --window=0 --depth=0
snapshot 6
"#;

pub struct Universe {
    pub ids: Vec<ObjectId>,
    pub objs: BTreeMap<ObjectId, (gix_object::Kind, Vec<u8>)>,
}
pub fn load_universe(dir: &Path) -> Universe {
    let b = std::fs::read(dir.join("universe.bin")).expect("universe");
    let mut pos = 0;
    let mut objs = BTreeMap::new();
    while pos < b.len() {
        let nl = pos + b[pos..].iter().position(|c| *c == b'\n').expect("header line");
        let hdr = std::str::from_utf8(&b[pos..nl]).unwrap();
        let mut it = hdr.split(' ');
        let id = ObjectId::from_hex(it.next().unwrap().as_bytes()).unwrap();
        let kind = gix_object::Kind::from_bytes(it.next().unwrap().as_bytes()).unwrap();
        let size: usize = it.next().unwrap().parse().unwrap();
        let data = b[nl + 1..nl + 1 + size].to_vec();
        objs.insert(id, (kind, data));
        pos = nl + 1 + size + 1;
    }
    Universe { ids: objs.keys().copied().collect(), objs }
}
fn list_files(root: &Path) -> BTreeSet<String> {
    fn rec(dir: &Path, root: &Path, out: &mut BTreeSet<String>) {
        if let Ok(rd) = std::fs::read_dir(dir) {
            for e in rd.flatten() {
                let p = e.path();
                if p.is_dir() {
                    rec(&p, root, out);
                } else {
                    out.insert(p.strip_prefix(root).unwrap().to_string_lossy().into_owned());
                }
            }
        }
    }
    let mut out = BTreeSet::new();
    rec(root, root, &mut out);
    out
}
fn rank(f: &str) -> u8 {
    if f.ends_with(".pack") {
        0
    } else if f.ends_with(".idx") {
        1
    } else if f.ends_with("multi-pack-index") {
        3
    } else {
        2 // loose
    }
}
/// The file-level steps git-style repacking takes from the live state to configuration `to`.
fn transition(live: &BTreeSet<String>, to_dir: &Path) -> Vec<(char, String)> {
    let to = list_files(to_dir);
    let mut steps = vec![];
    let mut adds: Vec<&String> = to.iter().filter(|f| !live.contains(*f) && !f.ends_with("multi-pack-index")).collect();
    adds.sort_by_key(|f| (rank(f), (*f).clone()));
    for f in adds {
        steps.push(('+', f.clone()));
    }
    // multi-pack-index: replaced (same name) or removed before the packs it names go away
    let midx = "pack/multi-pack-index".to_string();
    if to.contains(&midx) {
        steps.push(('+', midx.clone()));
    } else if live.contains(&midx) {
        steps.push(('-', midx.clone()));
    }
    let mut dels: Vec<&String> = live.iter().filter(|f| !to.contains(*f) && !f.ends_with("multi-pack-index")).collect();
    // index before pack (git), loose last
    dels.sort_by_key(|f| (if f.ends_with(".idx") { 0 } else if f.ends_with(".pack") { 1 } else { 2 }, (*f).clone()));
    for f in dels {
        steps.push(('-', f.clone()));
    }
    steps
}

// ---- the run ----------------------------------------------------------------------------------------------------------

#[derive(Default)]
struct Shared {
    /// availability ("always found") is judged only when the slot map is large enough for the whole history
    judge_availability: std::sync::atomic::AtomicBool,
    violations: Mutex<Vec<(String, String)>>,
    lookups: Mutex<BTreeMap<String, u64>>,
    done_readers: std::sync::atomic::AtomicUsize,
}
fn absent_id(i: usize) -> ObjectId {
    ObjectId::from_hex(format!("{:040x}", 0xabcdef0000u64 + i as u64).as_bytes()).unwrap()
}
fn err_kind(e: &(dyn std::error::Error + 'static)) -> String {
    let s = format!("{e}");
    let mut src = e.source();
    let mut chain = s.clone();
    while let Some(x) = src {
        chain.push_str(" <- ");
        chain.push_str(&format!("{x}"));
        src = x.source();
    }
    if chain.contains("slots") || chain.contains("Slots") || chain.contains("slotmap") {
        "insufficient-slots".into()
    } else {
        let w: Vec<&str> = s.split_whitespace().take(6).collect();
        w.join("-").chars().filter(|c| c.is_ascii_alphanumeric() || *c == '-').collect()
    }
}

fn reader(id: usize, r: Reader, store: Arc<gix_odb::Store>, uni: Arc<Universe>, sh: Arc<Shared>) {
    use gix_object::{Exists, Find, FindHeader};
    let mut handle = store.to_handle_arc();
    if !r.refresh {
        handle.refresh_never();
    }
    if r.stable {
        handle.prevent_pack_unload();
    }
    let mut cache: gix_odb::Cache<_> = gix_odb::Cache::from(handle);
    match r.cache {
        1 => cache.set_pack_cache(|| Box::new(gix_pack::cache::lru::StaticLinkedList::<4>::default())),
        2 => cache.set_pack_cache(|| Box::new(gix_pack::cache::lru::MemoryCappedHashmap::new(2048))),
        3 => {
            cache.set_pack_cache(|| Box::new(gix_pack::cache::lru::StaticLinkedList::<4>::default()));
            cache.set_object_cache(|| Box::new(gix_pack::cache::object::MemoryCappedHashmap::new(4096)));
        }
        _ => {}
    }
    let mut buf = Vec::new();
    let count = |k: &str| {
        *sh.lookups.lock().unwrap().entry(k.to_string()).or_insert(0) += 1;
    };
    let hkind = format!("refresh={} stable={} cache={}", r.refresh as u8, r.stable as u8, r.cache);
    let avail = sh.judge_availability.load(std::sync::atomic::Ordering::SeqCst);
    for (op, obj) in &r.ops {
        let present = *obj < 1000;
        let oid = if present { uni.ids[*obj % uni.ids.len()] } else { absent_id(*obj) };
        let t0 = rt::seq();
        match op {
            0 => match cache.try_find(&oid, &mut buf) {
                Ok(Some(d)) => {
                    count("find-hit");
                    match uni.objs.get(&oid) {
                        Some((k, bytes)) => {
                            if d.kind != *k || d.data != bytes.as_slice() {
                                sh.violations.lock().unwrap().push((
                                    format!("odb wrong-content op=find {hkind}"),
                                    format!("reader {id}: try_find({oid}) returned {} {} bytes, expected {} {} bytes (events {t0}..{})", d.kind, d.data.len(), k, bytes.len(), rt::seq()),
                                ));
                            }
                        }
                        None => sh.violations.lock().unwrap().push((format!("odb found-absent-object op=find {hkind}"), format!("reader {id}: try_find({oid}) returned an object that does not exist"))),
                    }
                }
                Ok(None) => {
                    count("find-none");
                    if present && r.refresh && avail {
                        sh.violations.lock().unwrap().push((format!("odb present-object-not-found op=find {hkind}"), format!("reader {id}: try_find({oid}) = None although the object was on disk at every instant (events {t0}..{})", rt::seq())));
                    }
                }
                Err(e) => {
                    let k = err_kind(e.as_ref());
                    count(&format!("find-error:{k}"));
                    if present && r.refresh && avail && k != "insufficient-slots" {
                        sh.violations.lock().unwrap().push((format!("odb lookup-error op=find err={k} {hkind}"), format!("reader {id}: try_find({oid}) failed: {e} (events {t0}..{})", rt::seq())));
                    }
                }
            },
            1 => {
                let c = cache.exists(&oid);
                count(if c { "contains-true" } else { "contains-false" });
                if c && !present {
                    sh.violations.lock().unwrap().push((format!("odb contains-absent-object {hkind}"), format!("reader {id}: contains({oid}) = true for an id that does not exist")));
                }
            }
            _ => match cache.try_header(&oid) {
                Ok(Some(h)) => {
                    count("header-hit");
                    match uni.objs.get(&oid) {
                        Some((k, bytes)) => {
                            if h.kind != *k || h.size != bytes.len() as u64 {
                                sh.violations.lock().unwrap().push((format!("odb wrong-content op=header {hkind}"), format!("reader {id}: try_header({oid}) = {} {} , expected {} {}", h.kind, h.size, k, bytes.len())));
                            }
                        }
                        None => sh.violations.lock().unwrap().push((format!("odb found-absent-object op=header {hkind}"), format!("reader {id}: header for absent {oid}"))),
                    }
                }
                Ok(None) => {
                    count("header-none");
                    if present && r.refresh && avail {
                        sh.violations.lock().unwrap().push((format!("odb present-object-not-found op=header {hkind}"), format!("reader {id}: try_header({oid}) = None although the object was on disk at every instant (events {t0}..{})", rt::seq())));
                    }
                }
                Err(e) => {
                    let k = err_kind(e.as_ref());
                    count(&format!("header-error:{k}"));
                    if present && r.refresh && avail && k != "insufficient-slots" {
                        sh.violations.lock().unwrap().push((format!("odb lookup-error op=header err={k} {hkind}"), format!("reader {id}: try_header({oid}) failed: {e}")));
                    }
                }
            },
        }
        if !sh.violations.lock().unwrap().is_empty() {
            break;
        }
    }
    sh.done_readers.fetch_add(1, std::sync::atomic::Ordering::SeqCst);
}

fn repacker(path: Vec<usize>, live_root: PathBuf, fixtures: PathBuf, sh: Arc<Shared>, n_readers: usize) {
    let mut live = list_files(&live_root);
    let mut tmpn = 0;
    // pack names are content hashes: git never removes a pack and later creates one of the same name, so a history may
    // not either (readers are entitled to treat a known pack path as unchanged)
    let mut removed: BTreeSet<String> = BTreeSet::new();
    for cfg in path {
        let to_dir = fixtures.join(format!("cfg{cfg}/objects"));
        let steps = transition(&live, &to_dir);
        if steps.iter().any(|(op, f)| *op == '+' && removed.contains(f) && rank(f) <= 1) {
            rt::probe("repack:history-cut-before-pack-name-reuse");
            return;
        }
        // the statement's environment: new packs / multi-pack indices appear before old packs or loose objects are
        // removed. Objects moving from packs back to loose files are not part of it.
        if steps.iter().any(|(op, f)| *op == '+' && rank(f) == 2) {
            rt::probe("repack:history-cut-before-loosening");
            return;
        }
        for (op, f) in steps {
            if sh.done_readers.load(std::sync::atomic::Ordering::SeqCst) >= n_readers {
                return;
            }
            let dst = live_root.join(&f);
            if op == '+' {
                // complete the file under a temporary name (invisible to scans), then rename it into place
                tmpn += 1;
                let tmp = live_root.join(format!("pack/tmp_gixsim_{tmpn}"));
                rt::bypass(|| {
                    if let Some(p) = dst.parent() {
                        let _ = std::fs::create_dir_all(p);
                    }
                    let _ = std::fs::create_dir_all(tmp.parent().unwrap());
                    std::fs::copy(to_dir.join(&f), &tmp).expect("copy fixture file");
                });
                fsx::without_faults(|| std::fs::rename(&tmp, &dst).expect("rename into place"));
                live.insert(f.clone());
                rt::probe(match rank(&f) {
                    0 => "repack:pack-added",
                    1 => "repack:idx-added",
                    3 => "repack:midx-written",
                    _ => "repack:loose-added",
                });
            } else {
                fsx::without_faults(|| {
                    let _ = std::fs::remove_file(&dst);
                });
                live.remove(&f);
                removed.insert(f.clone());
                rt::probe(match rank(&f) {
                    0 => "repack:pack-removed",
                    1 => "repack:idx-removed",
                    3 => "repack:midx-removed",
                    _ => "repack:loose-pruned",
                });
            }
        }
        rt::probe("repack:transition-complete");
    }
}

fn generate(seed: u64, tier: Tier) -> Workload {
    let mut r = Rng::stream(seed, STREAM_WORKLOAD);
    let mut sw = Rng::stream(seed, STREAM_SWARM);
    let start_cfg = r.usize_below(N_CFG);
    let n_tr = 1 + r.usize_below(if tier == Tier::Quick { 3 } else { 6 });
    let mut path = vec![];
    let mut cur = start_cfg;
    for _ in 0..n_tr {
        let mut nx = r.usize_below(N_CFG);
        if nx == cur {
            nx = (nx + 1) % N_CFG;
        }
        path.push(nx);
        cur = nx;
    }
    let nr = 1 + r.usize_below(3);
    let mut readers = vec![];
    for _ in 0..nr {
        let nops = 3 + r.usize_below(if tier == Tier::Quick { 14 } else { 40 });
        let mut ops = vec![];
        let hot: Vec<usize> = (0..3).map(|_| r.usize_below(40)).collect();
        for _ in 0..nops {
            let obj = if r.chance(120) { 1000 + r.usize_below(5) } else if r.chance(400) { *r.pick(&hot) } else { r.usize_below(60) };
            ops.push((*r.pick(&[0u8, 0, 0, 1, 2]), obj));
        }
        readers.push(Reader { refresh: !r.chance(150), stable: r.chance(300), cache: r.below(4) as u8, ops });
    }
    Workload { start_cfg, path, slots_extra: *r.pick(&[0i32, 0, 0, 1, 2, 3, 8, 30, -1]), use_midx: r.chance(700), readers, sched: super::swarm_policy_edges(&mut sw, 600, 60_000) }
}

impl Scenario for OdbRepack {
    fn name(&self) -> &'static str {
        "odb_repack"
    }
    fn properties(&self) -> &'static [&'static str] {
        &[P]
    }
    fn jobs_hint(&self) -> usize {
        16
    }
    fn cpu_limit_s(&self, _p: &str) -> u64 {
        240
    }
    fn runs(&self, tier: Tier, _p: &str) -> u64 {
        super::tier_pick(tier, 3_000, 300_000)
    }
    fn worker_init(&self, dir: &Path, _tier: Tier) {
        let out = std::process::Command::new("bash").arg("-c").arg(FIXTURE_SH).arg("fixture").arg(dir).output().expect("bash");
        if !out.status.success() {
            eprintln!("gixsim: fixture script failed: {}", String::from_utf8_lossy(&out.stderr));
            std::process::exit(2);
        }
    }
    fn generate(&self, seed: u64, tier: Tier, _p: &str) -> Value {
        serde_json::to_value(generate(seed, tier)).unwrap()
    }
    fn execute(&self, wv: &Value, ctx: &ExecCtx) -> Report {
        let mut rep = Report::default();
        let w: Workload = match serde_json::from_value(wv.clone()) {
            Ok(w) => w,
            Err(e) => {
                rep.harness_error = Some(format!("bad workload: {e}"));
                return rep;
            }
        };
        let uni = Arc::new(load_universe(&ctx.worker_dir));
        let live = ctx.sandbox.join("live");
        let objects = live.join("objects");
        // initial configuration
        let src = ctx.worker_dir.join(format!("cfg{}/objects", w.start_cfg));
        for f in list_files(&src) {
            let dst = objects.join(&f);
            std::fs::create_dir_all(dst.parent().unwrap()).unwrap();
            std::fs::copy(src.join(&f), &dst).unwrap();
        }
        std::fs::create_dir_all(objects.join("pack")).unwrap();
        // slots: enough for the largest number of indices alive at once along the path, plus/minus a seeded margin
        // Slots: with stable handles removed indices keep their slot, and a rewritten multi-pack-index moves to a new
        // one, so "sufficient for the whole history" = every index file of every configuration visited, counted once per
        // visit, plus slack. slots_extra < 0 deliberately undercuts that (safety-only runs).
        let is_index = |f: &&String| f.ends_with(".idx") || f.ends_with("multi-pack-index");
        let mut max_idx = list_files(&src).iter().filter(is_index).count() + 2;
        for c in &w.path {
            max_idx += list_files(&ctx.worker_dir.join(format!("cfg{c}/objects"))).iter().filter(is_index).count();
        }
        let slots = if w.slots_extra >= 0 { (max_idx as i32 + w.slots_extra) as u16 } else { (max_idx as i32 / 3).max(1) as u16 };
        let slots_sufficient = w.slots_extra >= 0;
        fsx::configure(fsx::FsCfg { root: live.to_string_lossy().into_owned(), stamp: true, ..Default::default() });
        let mut cfg = ctx.rt_cfg();
        super::apply_swarm(&mut cfg, wv);
        cfg.max_steps = 600_000; // a livelock hits this budget after about 9 s of CPU on a quiet machine; the CPU limit is 240 s
        let sh = Arc::new(Shared::default());
        sh.judge_availability.store(slots_sufficient, std::sync::atomic::Ordering::SeqCst);
        let (sh2, uni2, w2, objects2, fixtures) = (sh.clone(), uni.clone(), w.clone(), objects.clone(), ctx.worker_dir.clone());
        let o = rt::run(cfg, move || {
            let store = match gix_odb::Store::at_opts(objects2.clone(), &mut std::iter::empty(), gix_odb::store::init::Options { slots: gix_odb::store::init::Slots::Given(slots), object_hash: gix_hash::Kind::Sha1, use_multi_pack_index: w2.use_midx, current_dir: Some(objects2.clone()) }) {
                Ok(s) => Arc::new(s),
                Err(e) => {
                    sh2.violations.lock().unwrap().push(("odb store-open-failed".into(), format!("{e}")));
                    return;
                }
            };
            let mut hs = vec![];
            let n = w2.readers.len();
            for (i, r) in w2.readers.iter().enumerate() {
                let (r, st, u, s) = (r.clone(), store.clone(), uni2.clone(), sh2.clone());
                hs.push(std::thread::spawn(move || reader(i, r, st, u, s)));
            }
            {
                let (p, s) = (w2.path.clone(), sh2.clone());
                hs.push(std::thread::spawn(move || repacker(p, objects2, fixtures, s, n)));
            }
            for h in hs {
                let _ = h.join();
            }
        });
        let _ = fsx::take();
        rep.absorb_outcome(&o);
        // With fewer slots than index files the store misbehaves in several ways that share one root cause (recorded
        // as a known finding): everything but wrong content is reported under one signature then.
        if o.deadlock || o.budget_exceeded {
            let what = if o.deadlock { "deadlock" } else { "step-budget-exceeded" };
            if slots_sufficient {
                rep.violate(P, format!("odb {what}"), format!("blocked: {:?}", o.blocked));
            } else {
                rep.violate(P, format!("odb slots-short misbehaviour | {what}"), format!("{what} with {slots} slots; blocked: {:?}", o.blocked));
            }
        } else if !o.panics.is_empty() {
            let loc = o.panics[0].split(" @ ").nth(1).unwrap_or("").rsplit('/').next().unwrap_or("").to_string();
            if slots_sufficient {
                rep.violate(P, format!("odb panic at {loc}"), format!("{:?}", o.panics));
            } else {
                rep.violate(P, format!("odb slots-short misbehaviour | panic at {loc}"), format!("with {slots} slots: {:?}", o.panics));
            }
        }
        for (sig, detail) in sh.violations.lock().unwrap().iter() {
            // with too few slots even the content can be another object's (a slot that still serves a reader is given to
            // another index): the worst face of the slots-short finding, kept under a signature of its own
            if !slots_sufficient && sig.starts_with("odb wrong-content") {
                rep.violate(P, "odb slots-short wrong-content".to_string(), format!("with {slots} slots: {detail}"));
            } else {
                rep.violate(P, sig.clone(), detail.clone());
            }
        }
        let lk = sh.lookups.lock().unwrap().clone();
        for (k, v) in &lk {
            *rep.probes.entry(format!("lookup:{k}")).or_insert(0) += v;
        }
        rep.ops = lk.values().sum();
        let mut st = Fnv::default();
        st.write(format!("{}->{:?} slots={slots} midx={}", w.start_cfg, w.path, w.use_midx).as_bytes());
        rep.states.push(st.0);
        rep.log_hash ^= Fnv::of(format!("{lk:?}").as_bytes());
        rep.summary = format!("cfg {} -> {:?}, slots {slots}, midx {}, {} readers; lookups {:?}", w.start_cfg, w.path, w.use_midx, w.readers.len(), lk);
        rep
    }
    fn shrink(&self, wv: &Value) -> Vec<Value> {
        let w: Workload = match serde_json::from_value(wv.clone()) {
            Ok(w) => w,
            Err(_) => return vec![],
        };
        let mut out = vec![];
        for i in (0..w.readers.len()).rev() {
            if w.readers.len() > 1 {
                let mut c = w.clone();
                c.readers.remove(i);
                out.push(c);
            }
        }
        for i in (0..w.path.len()).rev() {
            if w.path.len() > 1 {
                let mut c = w.clone();
                c.path.remove(i);
                out.push(c);
            }
        }
        for i in 0..w.readers.len() {
            let n = w.readers[i].ops.len();
            if n > 1 {
                let mut c = w.clone();
                c.readers[i].ops.truncate(n / 2);
                out.push(c);
                let mut c = w.clone();
                c.readers[i].ops.drain(..n / 2);
                out.push(c);
            }
            if w.readers[i].cache != 0 {
                let mut c = w.clone();
                c.readers[i].cache = 0;
                out.push(c);
            }
            if w.readers[i].stable {
                let mut c = w.clone();
                c.readers[i].stable = false;
                out.push(c);
            }
        }
        out.into_iter().map(|c| serde_json::to_value(c).unwrap()).collect()
    }
    fn classify_death(&self, how: &str, w: &Value, _p: &str) -> Option<crate::driver::Violation> {
        // with fewer slots than index files the slot search can retry forever: one of the faces of the slots-short finding
        if w["slots_extra"].as_i64().map_or(false, |s| s < 0) && (how == "SIGXCPU" || how == "SIGABRT") {
            return Some(crate::driver::Violation { property: P.into(), sig: format!("odb slots-short misbehaviour | death {how}"), detail: "the process did not survive a lookup with too few slots (endless retry or assertion)".into() });
        }
        if how == "SIGXCPU" {
            return Some(crate::driver::Violation { property: P.into(), sig: "odb cpu-hang".into(), detail: "a lookup never returned (CPU limit)".into() });
        }
        if how == "SIGSEGV" || how == "SIGBUS" || how == "SIGABRT" {
            return Some(crate::driver::Violation { property: P.into(), sig: format!("odb crash {how}"), detail: "the process died inside a lookup".into() });
        }
        None
    }
    fn rule(&self, _p: &str) -> String {
        "object directory histories (7 configurations prepared by git: loose, partly packed, 3 packs, +multi-pack-index, one delta pack, +midx, re-packed without deltas; 1..6 git-style transitions, one file operation per step) x 1..3 reader handles (refresh on/off, stable pack ids, 4 cache kinds, 3..40 lookups of present/absent ids via find/contains/header) x slot counts around the minimum x seeded schedules at system-call and basic-block granularity; non-trivial = >=2 context switches; distinct = distinct (workload, decision list)".into()
    }
    fn real_stub(&self) -> Value {
        json!({
            "real": ["gix-odb dynamic Store/Handle/Cache (slot map, generations, index/pack loading, consolidation with disk state)", "gix-pack (index, multi-index, data decode, caches)", "gix-odb loose store", "arc-swap, parking_lot", "kernel tmpfs + mmap", "git (fixture factory: pack-objects, repack, multi-pack-index, cat-file as universe oracle)"],
            "simulated": ["thread scheduling (libc seam + basic-block pre-emption inside gix-odb/gix-pack), file-system call order, mtimes, clock"],
            "stub": ["the repacking process: a sim thread that renames complete files into place and unlinks old ones in git's order"],
        })
    }
    fn assumptions(&self, _p: &str) -> Vec<String> {
        vec![
            "every object of the universe is in a complete container at every instant (additions before removals, packs before their index, multi-pack-index rewritten before the packs it names are removed)".into(),
            "InsufficientSlots errors are configuration errors, not lookup failures; every other Err or None for a present object with refresh enabled is a violation".into(),
            "sequential consistency at scheduling-point / basic-block granularity".into(),
        ]
    }
}
