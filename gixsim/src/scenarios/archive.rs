//! C55 (archive part) — tar, tar.gz and zip archives made from a worktree stream contain exactly the tree.
//!
//! Same producer/consumer simulation as `wtstream.rs`, but the consumer is `gix_archive::write_stream_seek` writing
//! into a sink that takes a few bytes per call and reports `Interrupted` now and then. The archive is then read back by
//! an independent reader (below: tar blocks; zip central directory + raw inflate) and compared with the model, and —
//! for a share of the runs — with what `git archive` makes of the very same tree object.
use super::wtstream::{build_tree, content, extra_content, FaultyFind, Workload};
use crate::driver::{ExecCtx, Report};
use crate::prng::Fnv;
use crate::rt;
use gix_hash::ObjectId;
use gix_object::tree::EntryKind;
use serde_json::Value;
use std::collections::BTreeMap;
use std::io::{Read, Seek, SeekFrom, Write};
use std::sync::atomic::AtomicUsize;
use std::sync::{Arc, Mutex};

const P: &str = "C55";

/// What an archive says about one path.
#[derive(Clone, Debug, PartialEq, Eq)]
pub struct Item {
    /// 'f' file, 'l' symlink, 'd' directory
    pub kind: char,
    pub exec: bool,
    /// file content or link target
    pub data: Vec<u8>,
}

struct Sink {
    cur: std::io::Cursor<Vec<u8>>,
    chunk: usize,
    intr_every: usize,
    calls: usize,
    intrs: u64,
    shorts: u64,
}
impl Write for Sink {
    fn write(&mut self, buf: &[u8]) -> std::io::Result<usize> {
        self.calls += 1;
        if self.intr_every != 0 && self.calls % self.intr_every == 0 {
            self.intrs += 1;
            return Err(std::io::Error::new(std::io::ErrorKind::Interrupted, "injected EINTR"));
        }
        let n = if self.chunk == 0 { buf.len() } else { buf.len().min(self.chunk) };
        if n < buf.len() {
            self.shorts += 1;
        }
        self.cur.write(&buf[..n])
    }
    fn flush(&mut self) -> std::io::Result<()> {
        Ok(())
    }
}
impl Seek for Sink {
    fn seek(&mut self, pos: SeekFrom) -> std::io::Result<u64> {
        self.cur.seek(pos)
    }
}

fn octal(b: &[u8]) -> u64 {
    let s: String = b.iter().take_while(|c| **c != 0 && **c != b' ').map(|c| *c as char).collect();
    u64::from_str_radix(s.trim(), 8).unwrap_or(0)
}
fn cstr(b: &[u8]) -> Vec<u8> {
    b.iter().take_while(|c| **c != 0).copied().collect()
}

/// A tar reader that knows ustar/GNU headers, GNU long names and pax path/linkpath records.
pub fn read_tar(d: &[u8]) -> Result<Vec<(Vec<u8>, Item)>, String> {
    let mut out = vec![];
    let mut pos = 0;
    let mut long_name: Option<Vec<u8>> = None;
    let mut long_link: Option<Vec<u8>> = None;
    while pos + 512 <= d.len() {
        let h = &d[pos..pos + 512];
        if h.iter().all(|b| *b == 0) {
            break;
        }
        let size = octal(&h[124..136]) as usize;
        let ty = h[156];
        let mut name = cstr(&h[0..100]);
        let prefix = cstr(&h[345..500]);
        if &h[257..262] == b"ustar" && !prefix.is_empty() && &h[263..265] != b" \0" {
            let mut p = prefix;
            p.push(b'/');
            p.extend_from_slice(&name);
            name = p;
        }
        let data_start = pos + 512;
        let data_end = data_start + size;
        if data_end > d.len() {
            return Err(format!("tar entry at {pos} claims {size} bytes beyond the end"));
        }
        let data = &d[data_start..data_end];
        pos = data_start + size.div_ceil(512) * 512;
        match ty {
            b'L' => {
                long_name = Some(cstr(data));
                continue;
            }
            b'K' => {
                long_link = Some(cstr(data));
                continue;
            }
            b'x' | b'g' => {
                // pax records: "<len> key=value\n"
                let mut p = 0;
                while p < data.len() {
                    let sp = match data[p..].iter().position(|c| *c == b' ') {
                        Some(s) => s,
                        None => break,
                    };
                    let len: usize = std::str::from_utf8(&data[p..p + sp]).ok().and_then(|s| s.parse().ok()).unwrap_or(0);
                    if len == 0 || p + len > data.len() {
                        break;
                    }
                    let rec = &data[p + sp + 1..p + len - 1];
                    if ty == b'x' {
                        if let Some(v) = rec.strip_prefix(b"path=") {
                            long_name = Some(v.to_vec());
                        } else if let Some(v) = rec.strip_prefix(b"linkpath=") {
                            long_link = Some(v.to_vec());
                        }
                    }
                    p += len;
                }
                continue;
            }
            _ => {}
        }
        if let Some(n) = long_name.take() {
            name = n;
        }
        let mode = octal(&h[100..108]);
        let link = long_link.take().unwrap_or_else(|| cstr(&h[157..257]));
        let item = match ty {
            b'0' | 0 => Item { kind: 'f', exec: mode & 0o100 != 0, data: data.to_vec() },
            b'2' => Item { kind: 'l', exec: false, data: link },
            b'5' => Item { kind: 'd', exec: false, data: vec![] },
            b'1' => Item { kind: 'h', exec: false, data: link },
            other => return Err(format!("tar entry {:?} has unknown type {:?}", String::from_utf8_lossy(&name), other as char)),
        };
        out.push((name, item));
    }
    Ok(out)
}

fn le16(b: &[u8], at: usize) -> usize {
    u16::from_le_bytes([b[at], b[at + 1]]) as usize
}
fn le32(b: &[u8], at: usize) -> u64 {
    u32::from_le_bytes([b[at], b[at + 1], b[at + 2], b[at + 3]]) as u64
}
fn le64(b: &[u8], at: usize) -> u64 {
    u64::from_le_bytes(b[at..at + 8].try_into().unwrap())
}

/// A zip reader: end-of-central-directory (zip64 aware), central headers, local headers, stored or deflated data.
pub fn read_zip(d: &[u8]) -> Result<Vec<(Vec<u8>, Item)>, String> {
    let eocd = (0..=d.len().saturating_sub(22)).rev().find(|&i| d[i..].starts_with(&[0x50, 0x4b, 0x05, 0x06])).ok_or("no end-of-central-directory record")?;
    let mut count = le16(d, eocd + 10) as u64;
    let mut cd_off = le32(d, eocd + 16);
    if count == 0xffff || cd_off == 0xffff_ffff {
        // zip64 locator right before
        let loc = eocd.checked_sub(20).filter(|&l| d[l..].starts_with(&[0x50, 0x4b, 0x06, 0x07])).ok_or("zip64 sizes without locator")?;
        let e64 = le64(d, loc + 8) as usize;
        if !d.get(e64..).map_or(false, |s| s.starts_with(&[0x50, 0x4b, 0x06, 0x06])) {
            return Err("bad zip64 end-of-central-directory".into());
        }
        count = le64(d, e64 + 32);
        cd_off = le64(d, e64 + 48);
    }
    let mut out = vec![];
    let mut p = cd_off as usize;
    for _ in 0..count {
        if !d.get(p..).map_or(false, |s| s.starts_with(&[0x50, 0x4b, 0x01, 0x02])) || p + 46 > d.len() {
            return Err(format!("bad central header at {p}"));
        }
        let made_by = le16(d, p + 4);
        let method = le16(d, p + 10);
        let mut csize = le32(d, p + 20);
        let mut usize_ = le32(d, p + 24);
        let (nlen, xlen, clen) = (le16(d, p + 28), le16(d, p + 30), le16(d, p + 32));
        let ext = le32(d, p + 38);
        let mut lho = le32(d, p + 42);
        let name = d[p + 46..p + 46 + nlen].to_vec();
        let extra = &d[p + 46 + nlen..p + 46 + nlen + xlen];
        // zip64 extended information
        let mut x = 0;
        while x + 4 <= extra.len() {
            let (id, sz) = (le16(extra, x), le16(extra, x + 2));
            if id == 1 {
                let mut q = x + 4;
                if usize_ == 0xffff_ffff && q + 8 <= extra.len() {
                    usize_ = le64(extra, q);
                    q += 8;
                }
                if csize == 0xffff_ffff && q + 8 <= extra.len() {
                    csize = le64(extra, q);
                    q += 8;
                }
                if lho == 0xffff_ffff && q + 8 <= extra.len() {
                    lho = le64(extra, q);
                }
            }
            x += 4 + sz;
        }
        p += 46 + nlen + xlen + clen;
        let l = lho as usize;
        if !d.get(l..).map_or(false, |s| s.starts_with(&[0x50, 0x4b, 0x03, 0x04])) {
            return Err(format!("bad local header for {:?}", String::from_utf8_lossy(&name)));
        }
        let (lnlen, lxlen) = (le16(d, l + 26), le16(d, l + 28));
        let ds = l + 30 + lnlen + lxlen;
        let comp = d.get(ds..ds + csize as usize).ok_or("data beyond end")?;
        let data = match method {
            0 => comp.to_vec(),
            8 => {
                let mut out = Vec::with_capacity(usize_ as usize);
                flate2::read::DeflateDecoder::new(comp).read_to_end(&mut out).map_err(|e| format!("inflate {:?}: {e}", String::from_utf8_lossy(&name)))?;
                out
            }
            m => return Err(format!("compression method {m}")),
        };
        if data.len() as u64 != usize_ {
            return Err(format!("{:?}: {} bytes inflated, header says {usize_}", String::from_utf8_lossy(&name), data.len()));
        }
        let unix = made_by >> 8 == 3;
        let mode = (ext >> 16) as u32;
        let item = if name.ends_with(b"/") {
            Item { kind: 'd', exec: false, data: vec![] }
        } else if unix && mode & 0o170000 == 0o120000 {
            Item { kind: 'l', exec: false, data }
        } else {
            Item { kind: 'f', exec: unix && mode & 0o100 != 0, data }
        };
        out.push((name, item));
    }
    Ok(out)
}

fn files_of(items: Vec<(Vec<u8>, Item)>, what: &str, rep: &mut Report, shape: &str) -> BTreeMap<Vec<u8>, Item> {
    let mut m = BTreeMap::new();
    for (name, it) in items {
        if it.kind == 'd' {
            continue;
        }
        if m.insert(name.clone(), it).is_some() {
            rep.violate(P, format!("archive entry-twice {shape}"), format!("{what}: {:?} appears twice", String::from_utf8_lossy(&name)));
        }
    }
    m
}

fn describe(i: &Item) -> String {
    let d = String::from_utf8_lossy(&i.data[..i.data.len().min(40)]).into_owned();
    format!("{}{} {} bytes {:?}", i.kind, if i.exec { "+x" } else { "" }, i.data.len(), d)
}

pub fn execute(w: &Workload, ctx: &ExecCtx, wv: &Value) -> Report {
    let mut rep = Report::default();
    let (root, objs) = build_tree(&w.leaves);
    let objs = Arc::new(objs);
    let find = FaultyFind { objs: objs.clone(), calls: Arc::new(AtomicUsize::new(0)), fail_at: None, missing: false };
    let extra_dir = ctx.sandbox.join("extras");
    std::fs::create_dir_all(&extra_dir).unwrap();
    for e in w.extras.iter().filter(|e| e.source == 2) {
        std::fs::write(extra_dir.join(e.path.replace('/', "_")), extra_content(e)).unwrap();
    }
    let format = match w.archive {
        1 => gix_archive::Format::Tar,
        2 => gix_archive::Format::Zip { compression_level: Some(if w.sink_chunk % 2 == 0 { 1 } else { 6 }) },
        _ => gix_archive::Format::TarGz { compression_level: None },
    };
    let fname = ["", "tar", "zip", "tar.gz"][w.archive.min(3) as usize];
    let prefix = w.archive_prefix.then(|| "prefix/".to_string());
    let mut cfg = ctx.rt_cfg();
    super::apply_swarm(&mut cfg, wv);
    cfg.max_steps = 600_000;
    let result: Arc<Mutex<Option<Result<Vec<u8>, String>>>> = Arc::new(Mutex::new(None));
    let (w2, r2, p2, ed) = (w.clone(), result.clone(), prefix.clone(), extra_dir.clone());
    let o = rt::run(cfg, move || {
        let mut stream = gix_worktree_stream::from_tree(root, find, gix_filter::Pipeline::default(), |_path, _mode, _out| -> Result<(), std::io::Error> { Ok(()) });
        for e in &w2.extras {
            stream.add_entry(gix_worktree_stream::AdditionalEntry {
                id: ObjectId::null(gix_hash::Kind::Sha1),
                mode: EntryKind::Blob.into(),
                relative_path: e.path.as_str().into(),
                source: match e.source {
                    0 => gix_worktree_stream::entry::Source::Memory(extra_content(e)),
                    1 => gix_worktree_stream::entry::Source::Null,
                    _ => gix_worktree_stream::entry::Source::Path(ed.join(e.path.replace('/', "_"))),
                },
            });
        }
        // `Interrupted` is injected for plain tar only: the zip and flate2 crates pass it on from their finishing writes
        // without retrying (third-party code, observation in DESIGN §10), which fails the archive but never falsifies it
        let mut sink = Sink { cur: std::io::Cursor::new(Vec::new()), chunk: w2.sink_chunk, intr_every: if w2.archive == 1 { w2.sink_intr_every } else { 0 }, calls: 0, intrs: 0, shorts: 0 };
        let res = gix_archive::write_stream_seek(&mut stream, gix_worktree_stream::Stream::next_entry, &mut sink, gix_archive::Options { format, tree_prefix: p2.map(Into::into), modification_time: 1_700_000_000 });
        drop(stream);
        if sink.intrs > 0 {
            rt::probe("fault:sink-interrupted");
        }
        if sink.shorts > 0 {
            rt::probe("fault:sink-short-write");
        }
        *r2.lock().unwrap() = Some(res.map(|_| sink.cur.into_inner()).map_err(|e| e.to_string()));
    });
    rep.absorb_outcome(&o);
    let shape = format!("{fname}{}", if w.archive_prefix { " prefixed" } else { "" });
    rep.ops = (w.leaves.len() + w.extras.len()) as u64;
    if o.deadlock || o.budget_exceeded {
        rep.violate(P, format!("archive {} {shape}", if o.deadlock { "deadlock" } else { "livelock" }), format!("{:?}", o.blocked));
        return rep;
    }
    if !o.panics.is_empty() {
        rep.violate(P, format!("archive panic {shape} | {}", o.panics[0].rsplit('/').next().unwrap_or("")), format!("{:?}", o.panics));
        return rep;
    }
    let bytes = match result.lock().unwrap().take() {
        Some(Ok(b)) => b,
        Some(Err(e)) => {
            rep.violate(P, format!("archive write-failed {shape}"), format!("no fault that may fail the archive was injected, yet: {e}"));
            return rep;
        }
        None => {
            rep.violate(P, format!("archive no-result {shape}"), "write_stream_seek did not return".to_string());
            return rep;
        }
    };
    let parse = |b: &[u8], ar: u8| -> Result<Vec<(Vec<u8>, Item)>, String> {
        match ar {
            2 => read_zip(b),
            3 => {
                let mut t = vec![];
                flate2::read::GzDecoder::new(b).read_to_end(&mut t).map_err(|e| format!("gunzip: {e}"))?;
                read_tar(&t)
            }
            _ => read_tar(b),
        }
    };
    let ours = match parse(&bytes, w.archive) {
        Ok(v) => files_of(v, "gix-archive output", &mut rep, &shape),
        Err(e) => {
            rep.violate(P, format!("archive unreadable {shape}"), e);
            return rep;
        }
    };
    // the model
    let pre = prefix.clone().unwrap_or_default();
    let mut expect: BTreeMap<Vec<u8>, Item> = BTreeMap::new();
    for l in w.leaves.iter().filter(|l| l.kind != 3) {
        let d = content(l);
        expect.insert(format!("{pre}{}", l.path).into_bytes(), Item { kind: if l.kind == 2 { 'l' } else { 'f' }, exec: l.kind == 1, data: d });
    }
    for e in &w.extras {
        expect.insert(format!("{pre}{}", e.path).into_bytes(), Item { kind: 'f', exec: false, data: extra_content(e) });
    }
    let compare = |a: &BTreeMap<Vec<u8>, Item>, b: &BTreeMap<Vec<u8>, Item>, an: &str, bn: &str, exec: bool, rep: &mut Report, tag: &str| {
        for (k, v) in b {
            match a.get(k) {
                None => {
                    rep.violate(P, format!("archive {tag} entry-missing {shape}"), format!("{:?} is in {bn} but not in {an}", String::from_utf8_lossy(k)));
                    return;
                }
                Some(x) => {
                    if x.kind != v.kind || x.data != v.data || (exec && x.exec != v.exec) {
                        let what = if x.kind != v.kind { "kind" } else if x.data != v.data { if v.kind == 'l' { "link-target" } else { "content" } } else { "mode" };
                        rep.violate(P, format!("archive {tag} entry-differs {what} {shape}"), format!("{:?}: {an} has {}, {bn} has {}", String::from_utf8_lossy(k), describe(x), describe(v)));
                        return;
                    }
                }
            }
        }
        if let Some(k) = a.keys().find(|k| !b.contains_key(*k)) {
            rep.violate(P, format!("archive {tag} unexpected-entry {shape}"), format!("{:?} is in {an} but not in {bn}", String::from_utf8_lossy(k)));
        }
    };
    compare(&ours, &expect, "the archive", "the tree", true, &mut rep, "vs-tree");
    rep.probe(&format!("archive-read-back:{fname}"));
    if ours.values().filter(|i| i.kind == 'l').count() >= 2 {
        rep.probe("archive-with-two-or-more-symlinks");
    }
    // git archive of the same tree object
    if w.git_compare && rep.violations.is_empty() && w.archive != 3 {
        let gd = ctx.sandbox.join("gitrepo");
        std::fs::create_dir_all(gd.join("objects")).unwrap();
        std::fs::create_dir_all(gd.join("refs")).unwrap();
        std::fs::write(gd.join("HEAD"), "ref: refs/heads/main\n").unwrap();
        let store = gix_odb::loose::Store::at(gd.join("objects"), gix_hash::Kind::Sha1);
        for (_id, (kind, data)) in objs.iter() {
            use gix_odb::Write as _;
            if let Err(e) = store.write_buf(*kind, data) {
                rep.harness_error = Some(format!("cannot write fixture object: {e}"));
                return rep;
            }
        }
        let mut cmd = std::process::Command::new("git");
        cmd.arg("--git-dir").arg(&gd).arg("archive").arg(format!("--format={}", if w.archive == 2 { "zip" } else { "tar" }));
        if let Some(p) = &prefix {
            cmd.arg(format!("--prefix={p}"));
        }
        cmd.arg(root.to_string()).env("GIT_CONFIG_NOSYSTEM", "1").env("GIT_CONFIG_GLOBAL", "/dev/null");
        match cmd.output() {
            Ok(out) if out.status.success() => match parse(&out.stdout, w.archive) {
                Ok(v) => {
                    let git = files_of(v, "git archive output", &mut rep, &shape);
                    let ours_tree: BTreeMap<Vec<u8>, Item> = ours.iter().filter(|(k, _)| !w.extras.iter().any(|e| format!("{pre}{}", e.path).as_bytes() == k.as_slice())).map(|(k, v)| (k.clone(), v.clone())).collect();
                    // git's zip carries unix modes for executables and links only; tar modes go through tar.umask: compare the x bit for tar
                    compare(&ours_tree, &git, "gix-archive", "git archive", w.archive == 1, &mut rep, "vs-git");
                    rep.probe(&format!("compared-with-git-archive:{fname}"));
                }
                Err(e) => rep.harness_error = Some(format!("cannot read git's archive: {e}")),
            },
            Ok(out) => rep.harness_error = Some(format!("git archive failed: {}", String::from_utf8_lossy(&out.stderr))),
            Err(e) => rep.harness_error = Some(format!("git archive: {e}")),
        }
    }
    let st = Fnv::of(format!("{shape}|{}|{}", ours.len(), ours.values().filter(|i| i.kind == 'l').count().min(3)).as_bytes());
    rep.states.push(st);
    rep.log_hash ^= Fnv::of(&bytes) ^ st;
    rep.summary = format!("{} leaves + {} extras archived as {shape}: {} bytes, {} file/link entries", w.leaves.len(), w.extras.len(), bytes.len(), ours.len());
    rep
}
