//! placeholder
use crate::driver::{ExecCtx, Report, Scenario, Tier};
use serde_json::{json, Value};
pub struct Parallel;
impl Scenario for Parallel {
    fn name(&self) -> &'static str { "parallel" }
    fn properties(&self) -> &'static [&'static str] { &["C51"] }
    fn runs(&self, _t: Tier, _p: &str) -> u64 { 0 }
    fn generate(&self, _s: u64, _t: Tier, _p: &str) -> Value { json!({}) }
    fn execute(&self, _w: &Value, _c: &ExecCtx) -> Report { Report::default() }
}
