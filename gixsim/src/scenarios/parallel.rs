//! C51 — parallel helpers process every item exactly once (DESIGN §4).
//! Small instances of every helper in `gix_features::parallel`, run unmodified under the seeded scheduler.
use crate::driver::{ExecCtx, Report, Scenario, Tier};
use crate::prng::{Fnv, Rng, STREAM_SWARM, STREAM_WORKLOAD};
use crate::rt;
use gix_features::parallel::{self, InOrderIter, Reduce};
use serde_json::{json, Value};
use std::sync::atomic::{AtomicBool, AtomicIsize, AtomicUsize, Ordering::SeqCst};
use std::sync::{Arc, Mutex};

pub struct Parallel;
const P: &str = "C51";

struct Shared {
    consumed: Vec<AtomicUsize>,
    fed: Mutex<Vec<i64>>,
    finalized: AtomicUsize,
    reducer_finalized: AtomicUsize,
    notes: Mutex<Vec<String>>,
    threads_left_max: AtomicIsize,
    threads_left_init: AtomicIsize,
    stolen: AtomicUsize,
}
impl Shared {
    fn new(n: usize) -> Arc<Self> {
        Arc::new(Shared {
            consumed: (0..n.max(1) + 8).map(|_| AtomicUsize::new(0)).collect(),
            fed: Mutex::new(vec![]),
            finalized: AtomicUsize::new(0),
            reducer_finalized: AtomicUsize::new(0),
            notes: Mutex::new(vec![]),
            threads_left_max: AtomicIsize::new(isize::MIN),
            threads_left_init: AtomicIsize::new(0),
            stolen: AtomicUsize::new(0),
        })
    }
    fn note(&self, s: String) {
        self.notes.lock().unwrap().push(s);
    }
}

/// Reducer that records what it is fed and fails on its k-th feed.
struct Rec {
    sh: Arc<Shared>,
    fail_at: Option<usize>,
    n: usize,
}
impl Reduce for Rec {
    type Input = i64;
    type FeedProduce = i64;
    type Output = usize;
    type Error = String;
    fn feed(&mut self, item: i64) -> Result<i64, String> {
        let k = self.n;
        self.n += 1;
        if self.fail_at == Some(k) {
            return Err(format!("reducer-fail@{k}"));
        }
        self.sh.fed.lock().unwrap().push(item);
        Ok(item)
    }
    fn finalize(self) -> Result<usize, String> {
        self.sh.reducer_finalized.fetch_add(1, SeqCst);
        Ok(self.n)
    }
}

fn run_helper(w: &Value, sh: Arc<Shared>) {
    let helper = w["helper"].as_str().unwrap_or("");
    let n = w["items"].as_u64().unwrap_or(0) as usize;
    let t = w["threads"].as_u64().unwrap_or(1) as usize;
    let fail_at = w["fail_at"].as_u64().map(|v| v as usize);
    let take = w["take"].as_u64().map(|v| v as usize);
    let consume = {
        let sh = sh.clone();
        move |i: usize, st: &mut usize| -> i64 {
            sh.consumed[i].fetch_add(1, SeqCst);
            *st += 1;
            i as i64
        }
    };
    match helper {
        "in_parallel" | "in_parallel_if" => {
            let rec = Rec { sh: sh.clone(), fail_at, n: 0 };
            let res = if helper == "in_parallel" {
                parallel::in_parallel(0..n, Some(t), |_| 0usize, consume, rec)
            } else {
                let cond = w["cond"].as_bool().unwrap_or(true);
                parallel::in_parallel_if(|| cond, 0..n, Some(t), |_| 0usize, consume, rec)
            };
            sh.note(format!("result {res:?}"));
        }
        "with_finalize" => {
            let rec = Rec { sh: sh.clone(), fail_at, n: 0 };
            let sh2 = sh.clone();
            let res = parallel::in_parallel_with_finalize(
                0..n,
                Some(t),
                |_| 0usize,
                consume,
                move |st: usize| {
                    sh2.finalized.fetch_add(1, SeqCst);
                    -1 - st as i64 // finalize outputs are negative: -(count)-1
                },
                rec,
            );
            sh.note(format!("result {res:?}"));
        }
        "with_slice" => {
            let steal = w["steal"].as_bool().unwrap_or(false);
            let stop_after = w["periodic_stop_after"].as_u64();
            let mut items: Vec<u32> = vec![0; n];
            let sh2 = sh.clone();
            let sh3 = sh.clone();
            sh.threads_left_init.store(t as isize, SeqCst);
            let mut calls = 0u64;
            let res = parallel::in_parallel_with_slice(
                &mut items,
                Some(t),
                |_| 0usize,
                move |item: &mut u32, st: &mut usize, threads_left: &AtomicIsize, _stop: &AtomicBool| -> Result<(), String> {
                    *item += 1;
                    *st += 1;
                    let cur = threads_left.load(SeqCst);
                    sh2.threads_left_max.fetch_max(cur, SeqCst);
                    if steal && *st >= 1 {
                        // the work-stealing protocol gix-pack uses: take a thread if one is free, give it back afterwards
                        if threads_left.fetch_update(SeqCst, SeqCst, |x| (x > 0).then_some(x - 1)).is_ok() {
                            std::thread::scope(|s| {
                                s.spawn(|| {
                                    sh2.stolen.fetch_add(1, SeqCst);
                                });
                            });
                            threads_left.fetch_add(1, SeqCst);
                            rt::probe("work-stealing-entered");
                        }
                    }
                    if fail_at == Some(*st + 1000) {
                        unreachable!()
                    }
                    Ok(())
                },
                move || {
                    calls += 1;
                    match stop_after {
                        Some(k) if calls > k => None,
                        _ => Some(std::time::Duration::from_millis(10)),
                    }
                },
                |st| st,
            );
            let _ = sh3;
            sh.note(format!("result {res:?}"));
            sh.note(format!("items {items:?}"));
        }
        "with_slice_fail" => {
            // consumer fails on one specific item
            let k = fail_at.unwrap_or(0);
            let mut items: Vec<u32> = (0..n as u32).collect();
            let sh2 = sh.clone();
            let res = parallel::in_parallel_with_slice(
                &mut items,
                Some(t),
                |_| 0usize,
                move |item: &mut u32, st: &mut usize, _tl: &AtomicIsize, _stop: &AtomicBool| -> Result<(), String> {
                    let idx = *item as usize;
                    sh2.consumed[idx].fetch_add(1, SeqCst);
                    *st += 1;
                    if idx == k {
                        return Err(format!("consumer-fail@{k}"));
                    }
                    Ok(())
                },
                || Some(std::time::Duration::from_millis(10)),
                |st| st,
            );
            sh.note(format!("result {res:?}"));
        }
        "stepwise" => {
            let rec = Rec { sh: sh.clone(), fail_at, n: 0 };
            let sh2 = sh.clone();
            let mut it = parallel::reduce::Stepwise::new(
                0..n,
                Some(t),
                |_| 0usize,
                move |i: usize, st: &mut usize| {
                    sh2.consumed[i].fetch_add(1, SeqCst);
                    *st += 1;
                    i as i64
                },
                rec,
            );
            match take {
                Some(j) => {
                    let mut got = vec![];
                    for _ in 0..j {
                        match it.next() {
                            Some(v) => got.push(format!("{v:?}")),
                            None => break,
                        }
                    }
                    sh.note(format!("took {got:?}"));
                    drop(it);
                    sh.note(format!("live-after-drop {}", rt::live_count()));
                }
                None => {
                    let res = it.finalize();
                    sh.note(format!("result {res:?}"));
                    sh.note(format!("live-after-drop {}", rt::live_count()));
                }
            }
        }
        "eager" | "eager_if" => {
            let chunk = w["chunk"].as_u64().unwrap_or(1) as usize;
            let in_flight = w["in_flight"].as_u64().unwrap_or(0) as usize;
            let sh2 = sh.clone();
            let src = (0..n).inspect(move |&i| {
                sh2.consumed[i].fetch_add(1, SeqCst);
            });
            let mut got = vec![];
            let lim = take.unwrap_or(usize::MAX);
            if helper == "eager" {
                let mut it = parallel::EagerIter::new(src, chunk, in_flight);
                while got.len() < lim {
                    match it.next() {
                        Some(v) => got.push(v),
                        None => break,
                    }
                }
                drop(it);
            } else {
                let cond = w["cond"].as_bool().unwrap_or(true);
                let mut it = parallel::EagerIterIf::new(|| cond, src, chunk, in_flight);
                while got.len() < lim {
                    match it.next() {
                        Some(v) => got.push(v),
                        None => break,
                    }
                }
                drop(it);
            }
            sh.note(format!("got {got:?}"));
        }
        "join" => {
            let (a, b) = parallel::join(
                || {
                    sh.consumed[0].fetch_add(1, SeqCst);
                    11
                },
                || {
                    sh.consumed[1].fetch_add(1, SeqCst);
                    22
                },
            );
            sh.note(format!("result ({a},{b})"));
        }
        "inorder" => {
            // results arrive in whatever order the scheduler lets the workers finish; InOrderIter must restore it
            let sh2 = sh.clone();
            let it = parallel::reduce::Stepwise::new(
                0..n,
                Some(t),
                |_| 0usize,
                move |i: usize, _st: &mut usize| -> Result<(usize, i64), String> {
                    sh2.consumed[i].fetch_add(1, SeqCst);
                    if fail_at == Some(i) {
                        Err(format!("item-fail@{i}"))
                    } else {
                        Ok((i, i as i64 * 10))
                    }
                },
                parallel::reduce::IdentityWithResult::<(usize, i64), String>::default(),
            );
            let mut out = vec![];
            let mut after_err = 0;
            let mut seen_err = false;
            for v in InOrderIter::from(it) {
                if seen_err {
                    after_err += 1;
                }
                match v {
                    Ok(x) => out.push(format!("{x}")),
                    Err(e) => {
                        seen_err = true;
                        out.push(format!("E:{e}"));
                    }
                }
            }
            sh.note(format!("ordered {}", out.join(",")));
            sh.note(format!("after-err {after_err}"));
            sh.note(format!("live-after-drop {}", rt::live_count()));
        }
        "threads" => {
            let c = AtomicUsize::new(0);
            parallel::threads(|s| {
                for _ in 0..t {
                    s.spawn(|| {
                        c.fetch_add(1, SeqCst);
                    });
                }
            });
            sh.note(format!("result {}", c.load(SeqCst)));
        }
        _ => {}
    }
}

fn note_val<'a>(notes: &'a [String], key: &str) -> Option<&'a str> {
    notes.iter().find_map(|n| n.strip_prefix(key).map(|s| s.trim_start()))
}

fn oracle(w: &Value, sh: &Shared, o: &rt::Outcome, rep: &mut Report) {
    let helper = w["helper"].as_str().unwrap_or("");
    let n = w["items"].as_u64().unwrap_or(0) as usize;
    let t = w["threads"].as_u64().unwrap_or(1) as usize;
    let fail_at = w["fail_at"].as_u64().map(|v| v as usize);
    let take = w["take"].as_u64().map(|v| v as usize);
    let notes = sh.notes.lock().unwrap().clone();
    let consumed: Vec<usize> = sh.consumed.iter().take(n.max(2)).map(|c| c.load(SeqCst)).collect();
    let fed = sh.fed.lock().unwrap().clone();
    let shape = format!("{helper}");
    if o.deadlock {
        rep.violate(P, format!("parallel deadlock {shape} | blocked"), format!("threads never finish: {:?}; notes={notes:?}", o.blocked));
        return;
    }
    if o.budget_exceeded {
        rep.violate(P, format!("parallel livelock {shape} | budget"), format!("step budget exceeded; notes={notes:?}"));
        return;
    }
    if !o.panics.is_empty() {
        rep.violate(P, format!("parallel panic {shape} | {}", o.panics[0].split(" @ ").next().unwrap_or("")), format!("{:?}", o.panics));
        return;
    }
    // at-most-once, always
    for (i, c) in consumed.iter().enumerate() {
        if *c > 1 {
            rep.violate(P, format!("parallel item-consumed-twice {shape}"), format!("item {i} consumed {c} times; consumed={consumed:?}"));
            return;
        }
    }
    let result = note_val(&notes, "result").map(str::to_string);
    match helper {
        "in_parallel" | "in_parallel_if" | "with_finalize" => {
            let nfin = if helper == "with_finalize" { t } else { 0 };
            let total_feeds = n + nfin;
            let failing = fail_at.filter(|k| *k < total_feeds);
            match failing {
                None => {
                    if result.as_deref() != Some(&format!("Ok({total_feeds})")) {
                        rep.violate(P, format!("parallel wrong-result {shape}"), format!("expected Ok({total_feeds}), got {result:?}"));
                    }
                    if consumed.iter().take(n).any(|c| *c != 1) {
                        rep.violate(P, format!("parallel item-not-consumed {shape}"), format!("consumed={consumed:?}"));
                    }
                    let mut items: Vec<i64> = fed.iter().copied().filter(|v| *v >= 0).collect();
                    items.sort();
                    if items != (0..n as i64).collect::<Vec<_>>() {
                        rep.violate(P, format!("parallel reducer-multiset {shape}"), format!("fed={fed:?}"));
                    }
                    if helper == "with_finalize" {
                        let fins: Vec<i64> = fed.iter().copied().filter(|v| *v < 0).collect();
                        let sum: i64 = fins.iter().map(|v| -v - 1).sum();
                        if fins.len() != t || sum != n as i64 || sh.finalized.load(SeqCst) != t {
                            rep.violate(P, format!("parallel finalize-count {shape}"), format!("finalize outputs {fins:?}, finalize calls {}, threads {t}, items {n}", sh.finalized.load(SeqCst)));
                        }
                    }
                    if sh.reducer_finalized.load(SeqCst) != 1 {
                        rep.violate(P, format!("parallel reducer-finalize {shape}"), "reducer.finalize not called exactly once".to_string());
                    }
                }
                Some(k) => {
                    if result.as_deref() != Some(&format!("Err(\"reducer-fail@{k}\")")) {
                        rep.violate(P, format!("parallel error-lost {shape}"), format!("reducer failed at feed {k} but the call returned {result:?}"));
                    }
                    if fed.len() != k {
                        rep.violate(P, format!("parallel fed-after-error {shape}"), format!("fed={fed:?} k={k}"));
                    }
                }
            }
        }
        "with_slice" => {
            let stopped = w["periodic_stop_after"].as_u64().is_some();
            let items = note_val(&notes, "items").unwrap_or("").to_string();
            let processed: Vec<u32> = items.trim_matches(|c| c == '[' || c == ']').split(',').filter_map(|s| s.trim().parse().ok()).collect();
            if processed.iter().any(|c| *c > 1) {
                rep.violate(P, format!("parallel item-consumed-twice {shape}"), format!("items={items}"));
            }
            match &result {
                Some(r) if r.starts_with("Ok(") => {
                    let counts: Vec<usize> = r.trim_start_matches("Ok([").trim_end_matches("])").split(',').filter_map(|s| s.trim().parse().ok()).collect();
                    let sum: usize = counts.iter().sum();
                    let done: usize = processed.iter().map(|c| *c as usize).sum();
                    if sum != done {
                        rep.violate(P, format!("parallel state-sum {shape}"), format!("thread states {counts:?} do not add up to processed items {items}"));
                    }
                    if counts.len() != t {
                        rep.violate(P, format!("parallel results-per-thread {shape}"), format!("{} results for {t} threads", counts.len()));
                    }
                    if !stopped && done != n {
                        rep.violate(P, format!("parallel item-not-consumed {shape}"), format!("items={items}"));
                    }
                }
                other => rep.violate(P, format!("parallel wrong-result {shape}"), format!("{other:?}")),
            }
            let max = sh.threads_left_max.load(SeqCst);
            if max != isize::MIN && max > t as isize {
                rep.violate(P, format!("parallel threads-left-imbalance {shape}"), format!("threads_left reached {max} with {t} threads"));
            }
        }
        "with_slice_fail" => {
            let k = fail_at.unwrap_or(0);
            if k < n {
                if result.as_deref() != Some(&format!("Err(\"consumer-fail@{k}\")")) {
                    rep.violate(P, format!("parallel error-lost {shape}"), format!("consumer failed on item {k} but the call returned {result:?}"));
                }
            } else if !result.as_deref().unwrap_or("").starts_with("Ok(") {
                rep.violate(P, format!("parallel wrong-result {shape}"), format!("{result:?}"));
            } else if consumed.iter().take(n).any(|c| *c != 1) {
                rep.violate(P, format!("parallel item-not-consumed {shape}"), format!("consumed={consumed:?}"));
            }
        }
        "stepwise" => {
            if let Some(l) = note_val(&notes, "live-after-drop") {
                if l != "1" {
                    rep.violate(P, format!("parallel threads-survive-drop {shape}"), format!("{l} sim threads alive after the step-wise run was dropped/finalized"));
                }
            } else {
                rep.violate(P, format!("parallel no-return {shape}"), format!("notes={notes:?}"));
            }
            match take {
                None => {
                    let failing = fail_at.filter(|k| *k < n);
                    match failing {
                        None => {
                            if result.as_deref() != Some(&format!("Ok({n})")) {
                                rep.violate(P, format!("parallel wrong-result {shape}"), format!("{result:?}"));
                            }
                            if consumed.iter().take(n).any(|c| *c != 1) {
                                rep.violate(P, format!("parallel item-not-consumed {shape}"), format!("consumed={consumed:?}"));
                            }
                        }
                        Some(k) => {
                            if result.as_deref() != Some(&format!("Err(\"reducer-fail@{k}\")")) {
                                rep.violate(P, format!("parallel error-lost {shape}"), format!("{result:?}"));
                            }
                        }
                    }
                }
                Some(j) => {
                    let took = note_val(&notes, "took").unwrap_or("");
                    let cnt = took.matches("Ok(").count() + took.matches("Err(").count();
                    let expect = j.min(n);
                    if cnt != expect {
                        rep.violate(P, format!("parallel stepwise-short {shape}"), format!("asked for {j} of {n}, got {took}"));
                    }
                }
            }
        }
        "eager" | "eager_if" => {
            let got = note_val(&notes, "got").unwrap_or("").to_string();
            let expect: Vec<usize> = (0..take.unwrap_or(n).min(n)).collect();
            if got != format!("{expect:?}") {
                rep.violate(P, format!("parallel eager-order {shape}"), format!("expected {expect:?}, got {got}"));
            }
            if o.leaked_at_root_exit > 0 {
                rep.probe("eager-producer-outlived-consumer");
            }
        }
        "join" => {
            if result.as_deref() != Some("(11,22)") || consumed[0] != 1 || consumed[1] != 1 {
                rep.violate(P, format!("parallel wrong-result {shape}"), format!("{result:?} {consumed:?}"));
            }
        }
        "threads" => {
            if result.as_deref() != Some(&format!("{t}")) {
                rep.violate(P, format!("parallel wrong-result {shape}"), format!("{result:?}"));
            }
        }
        "inorder" => {
            let ordered = note_val(&notes, "ordered").unwrap_or("").to_string();
            let failing = fail_at.filter(|k| *k < n);
            let items: Vec<&str> = if ordered.is_empty() { vec![] } else { ordered.split(',').collect() };
            // every Ok must be the next sequence number; an error ends the sequence
            let mut next = 0usize;
            for it in &items {
                if let Some(e) = it.strip_prefix("E:") {
                    if failing.is_none() {
                        rep.violate(P, format!("parallel inorder-spurious-error {shape}"), e.to_string());
                    }
                    break;
                }
                if *it != format!("{}", next as i64 * 10) {
                    rep.violate(P, format!("parallel inorder-sequence {shape}"), format!("got {ordered}"));
                    break;
                }
                next += 1;
            }
            match failing {
                None => {
                    if next != n {
                        rep.violate(P, format!("parallel inorder-incomplete {shape}"), format!("got {ordered} for {n} items"));
                    }
                }
                Some(_) => {
                    if !ordered.contains("E:") {
                        rep.violate(P, format!("parallel error-lost {shape}"), format!("got {ordered}"));
                    }
                    if note_val(&notes, "after-err") != Some("0") {
                        rep.violate(P, format!("parallel inorder-after-error {shape}"), format!("got {ordered}"));
                    }
                }
            }
            if let Some(l) = note_val(&notes, "live-after-drop") {
                if l != "1" {
                    rep.violate(P, format!("parallel threads-survive-drop {shape}"), format!("{l} alive"));
                }
            }
        }
        _ => {}
    }
    if note_val(&notes, "result").is_none() && note_val(&notes, "got").is_none() && note_val(&notes, "took").is_none() && note_val(&notes, "ordered").is_none() {
        rep.violate(P, format!("parallel no-return {shape}"), format!("notes={notes:?} root_panicked={}", o.root_panicked));
    }
}

impl Scenario for Parallel {
    fn name(&self) -> &'static str {
        "parallel"
    }
    fn properties(&self) -> &'static [&'static str] {
        &[P]
    }
    fn runs(&self, tier: Tier, _p: &str) -> u64 {
        super::tier_pick(tier, 12_000, 1_000_000)
    }
    fn generate(&self, seed: u64, _tier: Tier, _p: &str) -> Value {
        let mut r = Rng::stream(seed, STREAM_WORKLOAD);
        let mut sw = Rng::stream(seed, STREAM_SWARM);
        let helpers = ["in_parallel", "in_parallel_if", "with_finalize", "with_slice", "with_slice", "with_slice_fail", "stepwise", "stepwise", "eager", "eager_if", "join", "inorder", "inorder", "threads"];
        let helper = *r.pick(&helpers);
        let n = r.below(7);
        let t = 1 + r.below(4);
        let mut w = json!({ "helper": helper, "items": n, "threads": t });
        if r.chance(350) {
            w["fail_at"] = json!(r.below(n + 2));
        }
        match helper {
            "in_parallel_if" | "eager_if" => w["cond"] = json!(r.chance(700)),
            _ => {}
        }
        match helper {
            "with_slice" => {
                w["steal"] = json!(r.chance(500));
                if r.chance(300) {
                    w["periodic_stop_after"] = json!(r.below(4));
                }
                w["fail_at"] = Value::Null;
            }
            "with_slice_fail" => {
                w["fail_at"] = json!(r.below(n + 1));
            }
            "stepwise" => {
                if r.chance(500) {
                    w["take"] = json!(r.below(n + 2));
                }
            }
            "eager" | "eager_if" => {
                w["chunk"] = json!(1 + r.below(3));
                w["in_flight"] = json!(r.below(3));
                if r.chance(500) {
                    w["take"] = json!(r.below(n + 1));
                }
            }
            _ => {}
        }
        w["sched"] = super::swarm_policy_edges(&mut sw, 120, 900);
        // These helpers are short (about 900 instrumented edges per run) and their races live in windows of one or two
        // edges: most runs get many pre-emptions close together rather than one somewhere.
        let mut dense = Rng::stream(seed, 91);
        w["sched"]["preempt_more_permille"] = json!(*dense.pick(&[0u32, 600, 900, 950, 950, 970]));
        w["sched"]["preempt_max_gap"] = json!(*dense.pick(&[900u64, 300, 110, 110, 40, 40]));
        w
    }
    fn execute(&self, w: &Value, ctx: &ExecCtx) -> Report {
        let mut rep = Report::default();
        let mut cfg = ctx.rt_cfg();
        super::apply_swarm(&mut cfg, w);
        cfg.max_steps = 50_000;
        let n = w["items"].as_u64().unwrap_or(0) as usize;
        let sh = Shared::new(n);
        let sh2 = sh.clone();
        let w2 = w.clone();
        let o = rt::run(cfg, move || run_helper(&w2, sh2));
        rep.absorb_outcome(&o);
        rep.ops = 1;
        oracle(w, &sh, &o, &mut rep);
        let notes = sh.notes.lock().unwrap().clone();
        let mut st = Fnv::default();
        st.write(w["helper"].as_str().unwrap_or("").as_bytes());
        st.write(notes.join("|").as_bytes());
        st.write(format!("{:?}", sh.fed.lock().unwrap()).as_bytes());
        rep.states.push(st.0);
        rep.log_hash ^= st.0;
        rep.summary = format!("{} -> {} (threads={} steps={} switches={})", w["helper"], notes.join("; "), o.threads, o.steps, o.switches);
        rep
    }
    fn jobs_hint(&self) -> usize {
        1
    }
    fn shrink(&self, w: &Value) -> Vec<Value> {
        let mut v = vec![];
        for key in ["items", "threads", "take", "fail_at", "periodic_stop_after", "chunk", "in_flight"] {
            if let Some(x) = w[key].as_u64() {
                let min = if key == "threads" || key == "chunk" { 1 } else { 0 };
                if x > min {
                    let mut c = w.clone();
                    c[key] = json!(x - 1);
                    v.push(c);
                }
            }
        }
        if w["steal"].as_bool() == Some(true) {
            let mut c = w.clone();
            c["steal"] = json!(false);
            v.push(c);
        }
        v
    }
    fn classify_death(&self, how: &str, w: &Value, _p: &str) -> Option<crate::driver::Violation> {
        if how == "SIGXCPU" {
            return Some(crate::driver::Violation { property: P.into(), sig: format!("parallel cpu-hang {}", w["helper"].as_str().unwrap_or("")), detail: "run exhausted its CPU limit without reaching a scheduling point".into() });
        }
        None
    }
    fn real_stub(&self) -> Value {
        json!({
            "real": ["gix_features::parallel::* (in_parallel, in_parallel_with_finalize, in_parallel_if, in_parallel_with_slice, reduce::Stepwise, EagerIter, EagerIterIf, InOrderIter, join, threads)", "std::thread (scoped and detached)", "crossbeam-channel", "std::sync::mpsc", "std atomics"],
            "simulated": ["thread scheduling (baton scheduler over real threads)", "futex wait/wake", "sleep and clocks", "getrandom"],
            "stub": ["consume / reducer / periodic callbacks (counting closures)"],
        })
    }
    fn rule(&self, _p: &str) -> String {
        "workloads drawn per seed (helper, 0..6 items, 1..4 workers, failing reducer/consumer position, take-j-then-drop, work stealing, periodic stop) x seeded schedules; non-trivial = >=2 context switches; distinct = distinct (workload, decision list) pairs".into()
    }
    fn assumptions(&self, _p: &str) -> Vec<String> {
        vec![
            "sequential consistency at scheduling-point granularity (futex calls, yields, sleeps, thread start/exit, labelled hook points)".into(),
            "sampling of schedules, not enumeration".into(),
        ]
    }
}
