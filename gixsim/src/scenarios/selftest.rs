//! Determinism self-test workload: scoped threads, crossbeam MPMC, parking_lot, rendezvous mpsc, sleeps, clock
//! reads, HashMap iteration (getrandom), file traffic. Its "oracle" is only that the run is deadlock-free;
//! the driver's twice-execution comparison does the real work.
use crate::driver::{ExecCtx, Report, Scenario, Tier};
use crate::fsx;
use crate::prng::{Rng, STREAM_SWARM};
use crate::rt;
use serde_json::{json, Value};
use std::sync::{Arc, Mutex};

pub struct SelfTest;

fn workload(dir: std::path::PathBuf, log: Arc<Mutex<Vec<String>>>) {
    let (tx_in, rx_in) = crossbeam_channel::bounded::<u32>(2);
    let (tx_out, rx_out) = crossbeam_channel::bounded::<(usize, u32)>(2);
    let pm = Arc::new(parking_lot::Mutex::new(Vec::<u32>::new()));
    let t0 = std::time::Instant::now();
    std::thread::scope(|s| {
        for tid in 0..3 {
            let rx_in = rx_in.clone();
            let tx_out = tx_out.clone();
            let pm = pm.clone();
            let dir = dir.clone();
            std::thread::Builder::new()
                .name(format!("w{tid}"))
                .spawn_scoped(s, move || {
                    for item in rx_in {
                        pm.lock().push(item);
                        rt::point(rt::Why::Point);
                        if item % 3 == 0 {
                            std::thread::sleep(std::time::Duration::from_millis(100));
                        }
                        std::fs::write(dir.join(format!("f{item}.tmp")), format!("{tid}:{item}")).unwrap();
                        let _ = std::fs::rename(dir.join(format!("f{item}.tmp")), dir.join("latest"));
                        if tx_out.send((tid, item * 2)).is_err() {
                            break;
                        }
                    }
                })
                .unwrap();
        }
        drop(tx_out);
        drop(rx_in);
        s.spawn(move || {
            for i in 0..8 {
                if tx_in.send(i).is_err() {
                    break;
                }
            }
        });
        for (tid, v) in rx_out {
            log.lock().unwrap().push(format!("{tid}:{v}"));
        }
    });
    let (stx, srx) = std::sync::mpsc::sync_channel::<u32>(0);
    let h = std::thread::spawn(move || {
        for i in 0..3 {
            stx.send(i).unwrap();
        }
    });
    let mut got = vec![];
    for v in srx {
        got.push(v);
    }
    h.join().unwrap();
    let mut hm = std::collections::HashMap::new();
    for i in 0..20 {
        hm.insert(i, i);
    }
    let order: Vec<i32> = hm.keys().copied().collect();
    let latest = std::fs::read_to_string(dir.join("latest")).unwrap_or_default();
    log.lock().unwrap().push(format!("sync:{got:?} elapsed_sim={:?} pm={} hm={order:?} latest={latest} fastrand={}", t0.elapsed(), pm.lock().len(), fastrand_like()));
}
fn fastrand_like() -> u64 {
    // what fastrand/tempfile do for seeding: hash of time and thread id through RandomState
    use std::hash::{BuildHasher, Hash, Hasher};
    let mut h = std::collections::hash_map::RandomState::new().build_hasher();
    std::time::Instant::now().hash(&mut h);
    std::thread::current().id().hash(&mut h);
    h.finish()
}

impl Scenario for SelfTest {
    fn name(&self) -> &'static str {
        "selftest"
    }
    fn properties(&self) -> &'static [&'static str] {
        &["SELFTEST"]
    }
    fn runs(&self, tier: Tier, _p: &str) -> u64 {
        super::tier_pick(tier, 256, 4000)
    }
    fn generate(&self, seed: u64, _tier: Tier, _p: &str) -> Value {
        let mut rng = Rng::stream(seed, STREAM_SWARM);
        json!({ "sched": super::swarm_policy(&mut rng, 150) })
    }
    fn execute(&self, w: &Value, ctx: &ExecCtx) -> Report {
        let mut rep = Report::default();
        let mut cfg = ctx.rt_cfg();
        super::apply_swarm(&mut cfg, w);
        let live = ctx.sandbox.join("live");
        std::fs::create_dir_all(&live).unwrap();
        fsx::configure(fsx::FsCfg { root: live.to_string_lossy().into_owned(), stamp: true, ..Default::default() });
        let log = Arc::new(Mutex::new(vec![]));
        let l2 = log.clone();
        let o = rt::run(cfg, move || workload(live, l2));
        rep.absorb_outcome(&o);
        let fs = fsx::take().unwrap();
        let lines = log.lock().unwrap().clone();
        // fold the observable result into the log hash so that the twice-execution check covers it
        rep.log_hash ^= crate::prng::Fnv::of(lines.join("|").as_bytes());
        rep.ops = fs.events.len() as u64;
        rep.states.push(crate::prng::Fnv::of(lines.join("|").as_bytes()));
        rep.summary = format!("threads={} steps={} fs_events={} out={}", o.threads, o.steps, fs.events.len(), lines.last().cloned().unwrap_or_default());
        if o.deadlock || o.budget_exceeded {
            rep.violate("SELFTEST", "selftest deadlock", format!("blocked={:?}", o.blocked));
        }
        if !o.panics.is_empty() || o.root_panicked {
            rep.violate("SELFTEST", "selftest panic", format!("{:?}", o.panics));
        }
        rep
    }
}
