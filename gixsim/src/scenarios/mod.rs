//! Scenario registry and helpers shared by scenarios.
use crate::driver::{Scenario, Tier};
use crate::prng::Rng;
use crate::rt::{Cfg, Policy};
use serde_json::{json, Value};

pub mod archive;
pub mod index_threads;
pub mod locks;
pub mod loose;
pub mod odb;
pub mod packing;
pub mod parallel;
pub mod pathstack;
pub mod pktline;
pub mod refstore;
pub mod selftest;
pub mod signals;
pub mod wtstream;
pub mod zstream;

pub fn all() -> Vec<&'static dyn Scenario> {
    vec![&selftest::SelfTest, &parallel::Parallel, &refstore::RefStore, &pktline::PktLine, &pathstack::PathStack, &zstream::ZStream, &locks::Locks, &odb::OdbRepack, &loose::LooseStore, &wtstream::WtStream, &packing::PackIngest, &index_threads::IndexThreads, &signals::Signals]
}

/// Which scenario decides a property.
pub fn for_property(p: &str) -> Option<&'static dyn Scenario> {
    all().into_iter().find(|s| s.properties().contains(&p))
}

/// Swarm: every run draws its own scheduler policy and hook-point subset.
pub fn swarm_policy(rng: &mut Rng, est_len: u64) -> Value {
    swarm_policy_edges(rng, est_len, 1000)
}
/// `est_edges`: typical number of instrumented basic-block edges one run of the scenario executes.
pub fn swarm_policy_edges(rng: &mut Rng, est_len: u64, est_edges: u64) -> Value {
    let policy = match rng.below(8) {
        0..=3 => Policy::RandomWalk { stay: *rng.pick(&[500, 700, 800, 900, 950, 970]) },
        4 | 5 => Policy::Pct { depth: 1 + rng.below(4) as u32, est_len },
        _ => Policy::Uniform,
    };
    let point_permille = *rng.pick(&[1000u32, 1000, 700, 400, 200]);
    // half of the runs are also pre-empted at instrumented basic-block edges (between libc calls)
    let preempt = if rng.chance(500) { *rng.pick(&[300u32, 600, 800, 900]) } else { 0 };
    json!({ "policy": policy, "point_permille": point_permille, "point_salt": rng.next_u64() >> 12, "preempt_more_permille": preempt, "preempt_max_gap": if rng.chance(700) { est_edges } else { (est_edges / 8).max(4) }, "preempt_max_distinct": (est_edges / 3).clamp(30, 3000) })
}
pub fn apply_swarm(cfg: &mut Cfg, w: &Value) {
    if let Ok(p) = serde_json::from_value::<Policy>(w["sched"]["policy"].clone()) {
        cfg.policy = p;
    }
    if let Some(v) = w["sched"]["point_permille"].as_u64() {
        cfg.point_permille = v as u32;
    }
    if let Some(v) = w["sched"]["point_salt"].as_u64() {
        cfg.point_salt = v;
    }
    if let Some(v) = w["sched"]["preempt_more_permille"].as_u64() {
        cfg.preempt_more_permille = v as u32;
    }
    if let Some(v) = w["sched"]["preempt_max_gap"].as_u64() {
        cfg.preempt_max_gap = v;
    }
    if let Some(v) = w["sched"]["preempt_max_distinct"].as_u64() {
        cfg.preempt_max_distinct = v;
    }
}
pub fn tier_pick(tier: Tier, quick: u64, thorough: u64) -> u64 {
    match tier {
        Tier::Quick => quick,
        Tier::Thorough => thorough,
    }
}
