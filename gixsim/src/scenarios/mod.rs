//! Scenario registry and helpers shared by scenarios.
use crate::driver::{Scenario, Tier};
use crate::prng::Rng;
use crate::rt::{Cfg, Policy};
use serde_json::{json, Value};

pub mod parallel;
pub mod pathstack;
pub mod pktline;
pub mod refstore;
pub mod selftest;

pub fn all() -> Vec<&'static dyn Scenario> {
    vec![&selftest::SelfTest, &parallel::Parallel, &refstore::RefStore, &pktline::PktLine, &pathstack::PathStack]
}

/// Which scenario decides a property.
pub fn for_property(p: &str) -> Option<&'static dyn Scenario> {
    all().into_iter().find(|s| s.properties().contains(&p))
}

/// Swarm: every run draws its own scheduler policy and hook-point subset.
pub fn swarm_policy(rng: &mut Rng, est_len: u64) -> Value {
    let policy = match rng.below(8) {
        0..=3 => Policy::RandomWalk { stay: *rng.pick(&[500, 700, 800, 900, 950, 970]) },
        4 | 5 => Policy::Pct { depth: 1 + rng.below(4) as u32, est_len },
        _ => Policy::Uniform,
    };
    let point_permille = *rng.pick(&[1000u32, 1000, 700, 400, 200]);
    json!({ "policy": policy, "point_permille": point_permille, "point_salt": rng.next_u64() >> 12 })
}
pub fn apply_swarm(cfg: &mut Cfg, w: &Value) {
    if let Ok(p) = serde_json::from_value::<Policy>(w["sched"]["policy"].clone()) {
        cfg.policy = p;
    }
    if let Some(v) = w["sched"]["point_permille"].as_u64() {
        cfg.point_permille = v as u32;
    }
    if let Some(v) = w["sched"]["point_salt"].as_u64() {
        cfg.point_salt = v;
    }
}
pub fn tier_pick(tier: Tier, quick: u64, thorough: u64) -> u64 {
    match tier {
        Tier::Quick => quick,
        Tier::Thorough => thorough,
    }
}
