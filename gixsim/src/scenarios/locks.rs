//! C22 — lock files give exclusive, atomic updates for every resource path (DESIGN §4).
//! 2–3 actor threads plus an emulated foreign process acquire / write / commit / drop locks on byte-string resource
//! names under seeded schedules; the oracle reads the file-system event log of the simulated disk.
use crate::driver::{ExecCtx, Report, Scenario, Tier};
use crate::fsx;
use crate::prng::{Fnv, Rng, STREAM_SWARM, STREAM_WORKLOAD};
use crate::rt;
use serde::{Deserialize, Serialize};
use serde_json::{json, Value};
use std::collections::{BTreeMap, BTreeSet};
use std::ffi::OsStr;
use std::os::unix::ffi::OsStrExt;
use std::path::{Path, PathBuf};
use std::sync::{Arc, Mutex};

pub struct Locks;
const P: &str = "C22";

#[derive(Clone, Debug, Serialize, Deserialize)]
pub struct Res {
    /// directories below the sandbox root (may not exist yet), as hex of the raw bytes
    pub dirs: Vec<String>,
    /// file name as hex of the raw bytes
    pub name: String,
    pub dir_exists: bool,
    pub initial: Option<String>,
}
#[derive(Clone, Debug, Serialize, Deserialize)]
pub struct Session {
    pub res: usize,
    /// 0 = File (update resource), 1 = Marker (hold)
    pub kind: u8,
    pub backoff_ms: Option<u64>,
    /// 0 = write+commit, 1 = write+close+commit, 2 = drop, 3 = write+drop, 4 = write+close+drop
    pub action: u8,
    pub content: String,
    pub boundary: bool,
}
#[derive(Clone, Debug, Serialize, Deserialize)]
pub struct Workload {
    pub resources: Vec<Res>,
    pub actors: Vec<Vec<Session>>,
    /// emulated foreign process: (resource, commit?) sessions using the raw lockfile protocol
    pub foreign: Vec<(usize, bool)>,
    pub eintr_permille: u32,
    /// how the boundary directory is spelled: 0 canonical, 1 trailing slash, 2 trailing "/.", 3 double slash
    #[serde(default)]
    pub boundary_style: u8,
    pub sched: Value,
}

fn unhex(s: &str) -> Vec<u8> {
    (0..s.len() / 2).map(|i| u8::from_str_radix(&s[2 * i..2 * i + 2], 16).unwrap_or(b'?')).collect()
}
fn hex(b: &[u8]) -> String {
    b.iter().map(|x| format!("{x:02x}")).collect()
}
fn res_path(root: &Path, r: &Res) -> PathBuf {
    let mut p = root.to_owned();
    for d in &r.dirs {
        p.push(OsStr::from_bytes(&unhex(d)));
    }
    p.push(OsStr::from_bytes(&unhex(&r.name)));
    p
}
fn with_suffix(p: &Path) -> PathBuf {
    let mut b = p.as_os_str().as_bytes().to_vec();
    b.extend_from_slice(b".lock");
    PathBuf::from(OsStr::from_bytes(&b))
}

#[derive(Default)]
struct Shared {
    notes: Mutex<Vec<String>>,
    /// (resource index, content) in the order commits returned Ok — cross-checked against rename order in the event log
    commits: Mutex<Vec<(usize, String, u64)>>,
}

fn actor(id: usize, sessions: Vec<Session>, w: Arc<Workload>, root: PathBuf, sh: Arc<Shared>) {
    use std::io::Write;
    for (i, s) in sessions.iter().enumerate() {
        let r = &w.resources[s.res];
        let path = res_path(&root, r);
        let boundary = s.boundary.then(|| {
            let mut b = root.as_os_str().as_bytes().to_vec();
            match w.boundary_style {
                1 => b.extend_from_slice(b"/"),
                2 => b.extend_from_slice(b"/."),
                3 => {
                    // double the last separator
                    if let Some(i) = b.iter().rposition(|c| *c == b'/') {
                        b.insert(i, b'/');
                    }
                }
                _ => {}
            }
            PathBuf::from(OsStr::from_bytes(&b))
        });
        let fail = match s.backoff_ms {
            None => gix_lock::acquire::Fail::Immediately,
            Some(ms) => gix_lock::acquire::Fail::AfterDurationWithBackoff(std::time::Duration::from_millis(ms)),
        };
        let tag = format!("a{id}s{i} res{}", s.res);
        if s.kind == 0 {
            match gix_lock::File::acquire_to_update_resource(&path, fail, boundary) {
                Ok(mut f) => {
                    let lp = f.lock_path().to_owned();
                    let rp = std::panic::catch_unwind(std::panic::AssertUnwindSafe(|| f.resource_path()));
                    sh.notes.lock().unwrap().push(format!("{tag} acquired lock_path={} resource_path={}", hex(lp.as_os_str().as_bytes()), rp.as_ref().map(|p| hex(p.as_os_str().as_bytes())).unwrap_or_else(|_| "PANIC".into())));
                    rt::probe("lock-acquired");
                    let write = s.action != 2;
                    if write {
                        if let Err(e) = f.write_all(s.content.as_bytes()) {
                            sh.notes.lock().unwrap().push(format!("{tag} write-error {e}"));
                        }
                    }
                    match s.action {
                        0 => match f.commit() {
                            Ok(_) => {
                                sh.commits.lock().unwrap().push((s.res, s.content.clone(), rt::seq()));
                                sh.notes.lock().unwrap().push(format!("{tag} committed"));
                            }
                            Err(e) => sh.notes.lock().unwrap().push(format!("{tag} commit-error {}", e.error)),
                        },
                        1 => match f.close() {
                            Ok(m) => match m.commit() {
                                Ok(_) => {
                                    sh.commits.lock().unwrap().push((s.res, s.content.clone(), rt::seq()));
                                    sh.notes.lock().unwrap().push(format!("{tag} committed"));
                                }
                                Err(e) => sh.notes.lock().unwrap().push(format!("{tag} commit-error {}", e.error)),
                            },
                            Err(e) => sh.notes.lock().unwrap().push(format!("{tag} close-error {e}")),
                        },
                        4 => {
                            if let Ok(m) = f.close() {
                                drop(m);
                            }
                            sh.notes.lock().unwrap().push(format!("{tag} dropped"));
                        }
                        _ => {
                            drop(f);
                            sh.notes.lock().unwrap().push(format!("{tag} dropped"));
                        }
                    }
                }
                Err(e) => {
                    rt::probe("lock-contended-or-failed");
                    sh.notes.lock().unwrap().push(format!("{tag} acquire-failed {}", short_err(&e)));
                }
            }
        } else {
            match gix_lock::Marker::acquire_to_hold_resource(&path, fail, boundary) {
                Ok(m) => {
                    let lp = m.lock_path().to_owned();
                    let rp = std::panic::catch_unwind(std::panic::AssertUnwindSafe(|| m.resource_path()));
                    sh.notes.lock().unwrap().push(format!("{tag} acquired lock_path={} resource_path={}", hex(lp.as_os_str().as_bytes()), rp.as_ref().map(|p| hex(p.as_os_str().as_bytes())).unwrap_or_else(|_| "PANIC".into())));
                    rt::probe("lock-acquired");
                    // hold it across a few scheduling points
                    let _ = std::fs::metadata(&path);
                    drop(m);
                    sh.notes.lock().unwrap().push(format!("{tag} dropped"));
                }
                Err(e) => {
                    rt::probe("lock-contended-or-failed");
                    sh.notes.lock().unwrap().push(format!("{tag} acquire-failed {}", short_err(&e)));
                }
            }
        }
    }
}
fn short_err(e: &gix_lock::acquire::Error) -> String {
    match e {
        gix_lock::acquire::Error::PermanentlyLocked { .. } => "locked".into(),
        gix_lock::acquire::Error::Io(e) => format!("io:{:?}", e.kind()),
    }
}
/// What another git process does: open(O_CREAT|O_EXCL) on `<resource>.lock`, write, rename into place or unlink.
fn foreign(sessions: Vec<(usize, bool)>, w: Arc<Workload>, root: PathBuf, sh: Arc<Shared>) {
    use std::io::Write;
    for (i, (res, commit)) in sessions.iter().enumerate() {
        let r = &w.resources[*res];
        let path = res_path(&root, r);
        let lock = with_suffix(&path);
        if let Some(parent) = lock.parent() {
            if !parent.exists() {
                continue; // a foreign git would create directories too; keep the stub simple
            }
        }
        fsx::without_faults(|| match std::fs::OpenOptions::new().write(true).create_new(true).open(&lock) {
            Ok(mut f) => {
                rt::probe("foreign-lock-acquired");
                let content = format!("foreign-{i}");
                let _ = f.write_all(content.as_bytes());
                drop(f);
                if *commit {
                    if std::fs::rename(&lock, &path).is_ok() {
                        sh.commits.lock().unwrap().push((*res, content, rt::seq()));
                    }
                } else {
                    let _ = std::fs::remove_file(&lock);
                }
            }
            Err(_) => rt::probe("foreign-lock-contended"),
        });
    }
}

fn oracle(w: &Workload, root: &Path, sh: &Shared, fs: &fsx::Fsx, o: &rt::Outcome, mtimes0: &BTreeMap<usize, (i64, i64)>, rep: &mut Report) {
    if o.deadlock || o.budget_exceeded {
        rep.violate(P, format!("locks {}", if o.deadlock { "deadlock" } else { "step-budget-exceeded" }), format!("{:?}", o.blocked));
        return;
    }
    if !o.panics.is_empty() {
        let loc = o.panics[0].split(" @ ").nth(1).unwrap_or("").rsplit('/').next().unwrap_or("").to_string();
        rep.violate(P, format!("locks panic at {loc}"), format!("{:?}", o.panics));
        return;
    }
    let notes = sh.notes.lock().unwrap().clone();
    let fsroot = root.parent().unwrap_or(root);
    let rel = |p: &Path| p.strip_prefix(fsroot).map(|p| p.as_os_str().as_bytes().to_vec()).unwrap_or_default();
    // (2) naming: the reported lock path is resource + ".lock", the resource path is the resource
    for n in &notes {
        if let Some(rest) = n.split(" acquired ").nth(1) {
            let ri: usize = n.split(" res").nth(1).and_then(|s| s.split(' ').next()).and_then(|s| s.parse().ok()).unwrap_or(0);
            let r = &w.resources[ri];
            let want_res = res_path(root, r);
            let want_lock = with_suffix(&want_res);
            let lp = rest.split("lock_path=").nth(1).and_then(|s| s.split(' ').next()).unwrap_or("");
            let rp = rest.split("resource_path=").nth(1).unwrap_or("");
            let shape = name_shape(&unhex(&r.name));
            if lp != hex(want_lock.as_os_str().as_bytes()) {
                rep.violate(P, format!("locks lock-path-is-not-resource+.lock name={shape}"), format!("resource {:?}: lock_path() = {:?}, expected {:?}", fsx::show(want_res.as_os_str().as_bytes()), fsx::show(&unhex(lp)), fsx::show(want_lock.as_os_str().as_bytes())));
                return;
            }
            if rp == "PANIC" {
                rep.violate(P, format!("locks resource-path-panics name={shape}"), format!("resource_path() panicked for {:?}", fsx::show(want_res.as_os_str().as_bytes())));
                return;
            }
            if rp != hex(want_res.as_os_str().as_bytes()) {
                rep.violate(P, format!("locks resource-path-wrong name={shape}"), format!("resource_path() = {:?}, expected {:?}", fsx::show(&unhex(rp)), fsx::show(want_res.as_os_str().as_bytes())));
                return;
            }
        }
    }
    // (1) exclusivity, from the event log: per lock path creations (must be O_EXCL) and removals alternate
    let mut held: BTreeMap<Vec<u8>, bool> = BTreeMap::new();
    let lock_paths: BTreeMap<Vec<u8>, usize> = w.resources.iter().enumerate().map(|(i, r)| (rel(&with_suffix(&res_path(root, r))), i)).collect();
    let mut last_commit_by_rename: BTreeMap<usize, u64> = BTreeMap::new();
    for e in &fs.events {
        if e.rc < 0 {
            continue;
        }
        if e.op == "open" && e.flags & libc::O_CREAT != 0 {
            if let Some(ri) = lock_paths.get(&e.path) {
                if e.flags & libc::O_EXCL == 0 {
                    rep.violate(P, "locks lock-created-without-O_EXCL".to_string(), format!("open({}) flags {:#x} at event {}", fsx::show(&e.path), e.flags, e.seq));
                    return;
                }
                if *held.get(&e.path).unwrap_or(&false) {
                    rep.violate(P, "locks two-holders".to_string(), format!("lock for resource {ri} created twice without a release in between (event {})", e.seq));
                    return;
                }
                held.insert(e.path.clone(), true);
            }
        }
        if (e.op == "rename" || e.op == "link") && lock_paths.contains_key(&e.path) {
            let ri = lock_paths[&e.path];
            let want = rel(&res_path(root, &w.resources[ri]));
            if e.path2 != want {
                rep.violate(P, format!("locks commit-replaces-other-path name={}", name_shape(&unhex(&w.resources[ri].name))), format!("rename {} -> {}, expected target {}", fsx::show(&e.path), fsx::show(&e.path2), fsx::show(&want)));
                return;
            }
            if e.op == "rename" {
                held.insert(e.path.clone(), false);
                last_commit_by_rename.insert(ri, e.seq);
            }
        }
        if e.op == "unlink" && lock_paths.contains_key(&e.path) {
            held.insert(e.path.clone(), false);
        }
    }
    // (3)/(4) final content per resource = content of the last commit in rename order, else the initial content
    let commits = sh.commits.lock().unwrap().clone();
    for (ri, r) in w.resources.iter().enumerate() {
        let p = res_path(root, r);
        let last = commits.iter().filter(|c| c.0 == ri).max_by_key(|c| c.2);
        let got = std::fs::read(&p).ok();
        let want: Option<Vec<u8>> = match last {
            Some(c) => Some(c.1.clone().into_bytes()),
            None => r.initial.clone().map(String::into_bytes),
        };
        // with several committers the one whose rename came last wins; `commits` is ordered by return, so accept any
        // committed content when there was more than one committer
        let n_committers = commits.iter().filter(|c| c.0 == ri).count();
        let ok = if n_committers > 1 { got.as_ref().map_or(false, |g| commits.iter().any(|c| c.0 == ri && c.1.as_bytes() == g.as_slice())) } else { got == want };
        if !ok {
            rep.violate(P, format!("locks resource-content name={}", name_shape(&unhex(&r.name))), format!("resource {ri} holds {:?}, expected {:?}", got.map(|g| String::from_utf8_lossy(&g).into_owned()), want.map(|g| String::from_utf8_lossy(&g).into_owned())));
            return;
        }
        if n_committers == 0 {
            if let (Some(m0), Ok(md)) = (mtimes0.get(&ri), std::fs::metadata(&p)) {
                use std::os::unix::fs::MetadataExt;
                if (md.mtime(), md.mtime_nsec()) != *m0 {
                    rep.violate(P, "locks dropped-lock-touched-resource".to_string(), format!("resource {ri} was never committed to but its mtime changed"));
                    return;
                }
            }
        }
    }
    // (5) leftovers: no lock files, no directory that did not exist before and holds nothing
    let mut files = BTreeSet::new();
    let mut dirs = BTreeSet::new();
    walk(fsroot, root, &mut files, &mut dirs);
    let resource_files: BTreeSet<Vec<u8>> = w.resources.iter().map(|r| rel(&res_path(root, r))).collect();
    for f in &files {
        if !resource_files.contains(f) && (f.ends_with(b".lock") || f.ends_with(b".lock.next")) {
            rep.violate(P, "locks lock-file-left-behind".to_string(), format!("{}", fsx::show(f)));
            return;
        }
    }
    let preexisting: BTreeSet<Vec<u8>> = w
        .resources
        .iter()
        .filter(|r| r.dir_exists)
        .flat_map(|r| {
            let mut v = vec![];
            let mut p = PathBuf::from("b");
            for d in &r.dirs {
                p.push(OsStr::from_bytes(&unhex(d)));
                v.push(p.as_os_str().as_bytes().to_vec());
            }
            v
        })
        .collect();
    // the emulated foreign process does not tidy directories, and while its lock file sits in a directory our rmdir
    // legitimately fails: judge directory clean-up only when every user of the tree is gitoxide
    let boundary_used: bool = w.actors.iter().flatten().all(|s| s.boundary) && w.foreign.is_empty();
    for d in &dirs {
        let has_file = files.iter().any(|f| f.starts_with(d) && f.get(d.len()) == Some(&b'/'));
        if !has_file && !preexisting.contains(d) && boundary_used {
            rep.violate(P, "locks created-directory-left-behind".to_string(), format!("{} was created for a lock, is empty, and was not removed", fsx::show(d)));
            return;
        }
    }
}
fn walk(root: &Path, dir: &Path, files: &mut BTreeSet<Vec<u8>>, dirs: &mut BTreeSet<Vec<u8>>) {
    if let Ok(rd) = std::fs::read_dir(dir) {
        for e in rd.flatten() {
            let p = e.path();
            let relp = p.strip_prefix(root).unwrap().as_os_str().as_bytes().to_vec();
            if e.file_type().map_or(false, |t| t.is_dir()) {
                dirs.insert(relp);
                walk(root, &p, files, dirs);
            } else {
                files.insert(relp);
            }
        }
    }
}
fn name_shape(n: &[u8]) -> String {
    let utf8 = std::str::from_utf8(n).is_ok();
    let dot = n.iter().rposition(|b| *b == b'.');
    let ext = match dot {
        None => "no-ext",
        Some(0) => "leading-dot",
        Some(i) if i + 1 == n.len() => "trailing-dot",
        Some(i) => {
            if std::str::from_utf8(&n[i + 1..]).is_ok() {
                "utf8-ext"
            } else {
                "non-utf8-ext"
            }
        }
    };
    format!("{}:{ext}", if utf8 { "utf8" } else { "non-utf8" })
}

fn gen_name(r: &mut Rng) -> Vec<u8> {
    let stems: [&[u8]; 8] = [b"config", b"index", b"a", b"HEAD", b".hidden", b"st\xc3\xa9m", b"bad\xff\xfestem", b"x y"];
    let exts: [&[u8]; 9] = [b"", b"", b".txt", b".tar.gz", b".", b".lock", b".\xff\xfe", b".e\xcc\x81", b".a\x80b"];
    let st: &[u8] = *r.pick(&stems[..]);
    let mut v = st.to_vec();
    let e: &[u8] = *r.pick(&exts[..]);
    v.extend_from_slice(e);
    v
}

fn generate(seed: u64) -> Workload {
    let mut r = Rng::stream(seed, STREAM_WORKLOAD);
    let mut sw = Rng::stream(seed, STREAM_SWARM);
    let nres = 1 + r.usize_below(3);
    let mut resources = vec![];
    let mut seen = BTreeSet::new();
    while resources.len() < nres {
        let name = gen_name(&mut r);
        let ndirs = r.usize_below(3);
        let dirs: Vec<String> = (0..ndirs).map(|i| hex(format!("d{}", r.below(2) + i as u64 * 2).as_bytes())).collect();
        let key = (dirs.clone(), name.clone());
        // a resource must not be named like the lock file of another one (`x` and `x.lock` in one directory): then one
        // actor's committed resource *is* the other's lock file, and whatever the second does to its lock happens to the
        // first one's data — an aliasing inherent to lock files (git's too), outside the statement
        let mut with_lock = name.clone();
        with_lock.extend_from_slice(b".lock");
        let aliased = seen.iter().any(|(d, n): &(Vec<String>, Vec<u8>)| {
            let mut n_lock = n.clone();
            n_lock.extend_from_slice(b".lock");
            d == &dirs && (n == &with_lock || n_lock == name)
        });
        if aliased || !seen.insert(key) {
            continue;
        }
        let dir_exists = ndirs == 0 || r.chance(500);
        let initial = if dir_exists && r.chance(600) { Some(format!("initial-{}", resources.len())) } else { None };
        resources.push(Res { dirs, name: hex(&name), dir_exists, initial });
    }
    let nact = 1 + r.usize_below(3);
    let mut actors = vec![];
    for _ in 0..nact {
        let ns = 1 + r.usize_below(3);
        let mut v = vec![];
        for _ in 0..ns {
            let kind = if r.chance(750) { 0 } else { 1 };
            v.push(Session { res: r.usize_below(nres), kind, backoff_ms: if r.chance(400) { Some(*r.pick(&[1u64, 10, 100])) } else { None }, action: r.below(5) as u8, content: format!("c{}", r.below(1_000_000)), boundary: true });
        }
        actors.push(v);
    }
    let mut foreign = vec![];
    if r.chance(400) {
        for _ in 0..1 + r.usize_below(2) {
            foreign.push((r.usize_below(nres), r.chance(500)));
        }
    }
    Workload { resources, actors, foreign, eintr_permille: *sw.pick(&[0u32, 0, 100]), boundary_style: *r.pick(&[0u8, 0, 1, 2, 3]), sched: super::swarm_policy_edges(&mut sw, 300, 4000) }
}

impl Scenario for Locks {
    fn name(&self) -> &'static str {
        "locks"
    }
    fn properties(&self) -> &'static [&'static str] {
        &[P]
    }
    fn jobs_hint(&self) -> usize {
        6
    }
    fn runs(&self, tier: Tier, _p: &str) -> u64 {
        super::tier_pick(tier, 6_000, 400_000)
    }
    fn generate(&self, seed: u64, _t: Tier, _p: &str) -> Value {
        serde_json::to_value(generate(seed)).unwrap()
    }
    fn execute(&self, wv: &Value, ctx: &ExecCtx) -> Report {
        let mut rep = Report::default();
        let w: Workload = match serde_json::from_value(wv.clone()) {
            Ok(w) => w,
            Err(e) => {
                rep.harness_error = Some(format!("bad workload: {e}"));
                return rep;
            }
        };
        let live = ctx.sandbox.join("live");
        // everything happens below the boundary directory live/b, which holds nothing else: it must survive
        let root = live.join("b");
        std::fs::create_dir_all(&root).unwrap();
        let mut mtimes0 = BTreeMap::new();
        for (i, r) in w.resources.iter().enumerate() {
            let p = res_path(&root, r);
            if r.dir_exists {
                std::fs::create_dir_all(p.parent().unwrap()).unwrap();
            }
            if let Some(c) = &r.initial {
                std::fs::write(&p, c).unwrap();
                // a fixed old timestamp so that "untouched" can be checked exactly
                let ts = libc::timespec { tv_sec: 1_600_000_000 + i as i64, tv_nsec: 123 };
                let c = std::ffi::CString::new(p.as_os_str().as_bytes()).unwrap();
                unsafe { libc::utimensat(libc::AT_FDCWD, c.as_ptr(), [ts, ts].as_ptr(), 0) };
                mtimes0.insert(i, (ts.tv_sec, ts.tv_nsec));
            }
        }
        fsx::configure(fsx::FsCfg { root: live.to_string_lossy().into_owned(), stamp: true, eintr_permille: w.eintr_permille, ..Default::default() });
        let mut cfg = ctx.rt_cfg();
        super::apply_swarm(&mut cfg, wv);
        cfg.max_steps = 300_000;
        let sh = Arc::new(Shared::default());
        let wa = Arc::new(w.clone());
        let (sh2, wa2, root2) = (sh.clone(), wa.clone(), root.clone());
        let o = rt::run(cfg, move || {
            let mut hs = vec![];
            for (i, a) in wa2.actors.iter().enumerate() {
                let (a, w3, r3, s3) = (a.clone(), wa2.clone(), root2.clone(), sh2.clone());
                hs.push(std::thread::spawn(move || actor(i, a, w3, r3, s3)));
            }
            if !wa2.foreign.is_empty() {
                let (f, w3, r3, s3) = (wa2.foreign.clone(), wa2.clone(), root2.clone(), sh2.clone());
                hs.push(std::thread::spawn(move || foreign(f, w3, r3, s3)));
            }
            for h in hs {
                let _ = h.join();
            }
        });
        let fs = fsx::take().unwrap();
        rep.absorb_outcome(&o);
        if !root.is_dir() || !live.is_dir() {
            rep.violate(P, format!("locks boundary-directory-removed style={}", w.boundary_style), format!("the boundary directory {} itself was removed", root.display()));
        }
        oracle(&w, &root, &sh, &fs, &o, &mtimes0, &mut rep);
        let notes = sh.notes.lock().unwrap().clone();
        rep.ops = w.actors.iter().map(|a| a.len() as u64).sum::<u64>() + w.foreign.len() as u64;
        let outcome: Vec<String> = notes.iter().map(|n| n.split(' ').take(3).collect::<Vec<_>>().join(" ")).collect();
        let st = Fnv::of(outcome.join("|").as_bytes());
        rep.states.push(st);
        rep.log_hash ^= st;
        rep.summary = format!("{} resources, {} actors, {} foreign; {}", w.resources.len(), w.actors.len(), w.foreign.len(), outcome.join("; "));
        rep
    }
    fn shrink(&self, wv: &Value) -> Vec<Value> {
        let w: Workload = match serde_json::from_value(wv.clone()) {
            Ok(w) => w,
            Err(_) => return vec![],
        };
        let mut out = vec![];
        for i in (0..w.actors.len()).rev() {
            if w.actors.len() > 1 {
                let mut c = w.clone();
                c.actors.remove(i);
                out.push(c);
            }
            for j in (0..w.actors[i].len()).rev() {
                if w.actors[i].len() > 1 {
                    let mut c = w.clone();
                    c.actors[i].remove(j);
                    out.push(c);
                }
            }
        }
        if !w.foreign.is_empty() {
            let mut c = w.clone();
            c.foreign.clear();
            out.push(c);
        }
        for i in 0..w.resources.len() {
            if !w.resources[i].dirs.is_empty() {
                let mut c = w.clone();
                c.resources[i].dirs.pop();
                c.resources[i].dir_exists = c.resources[i].dirs.is_empty() || c.resources[i].dir_exists;
                out.push(c);
            }
        }
        if w.eintr_permille > 0 {
            let mut c = w.clone();
            c.eintr_permille = 0;
            out.push(c);
        }
        out.into_iter().map(|c| serde_json::to_value(c).unwrap()).collect()
    }
    fn rule(&self, _p: &str) -> String {
        "1..3 resources with byte-string names (stems/extensions with dots, none, several, trailing/leading dot, '.lock', non-UTF-8 bytes in stem and in extension) nested under 0..2 directories that may not exist; 1..3 actor threads x 1..3 sessions (File/Marker, both fail modes, commit / close+commit / drop variants) plus an emulated foreign process; seeded schedules at system-call and basic-block granularity; non-trivial = >=2 context switches; distinct = distinct (workload, decision list)".into()
    }
    fn real_stub(&self) -> Value {
        json!({
            "real": ["gix-lock (File, Marker, acquire, commit, drop)", "gix-tempfile (registry, handles, directory creation/removal)", "tempfile (rustix on its libc backend)", "gix-fs dir create/remove", "kernel tmpfs"],
            "simulated": ["thread scheduling, file-system call order, EINTR on writes, clock and back-off sleeps"],
            "stub": ["another process contending for a lock: a sim thread issuing open(O_CREAT|O_EXCL)/write/rename/unlink"],
        })
    }
    fn assumptions(&self, _p: &str) -> Vec<String> {
        vec!["exclusivity is read off the event log of the simulated disk (creations of a lock path must be O_EXCL and alternate with removals); the kernel's O_EXCL is trusted".into(), "whether pre-existing empty directories survive a dropped lock is not judged (the statement speaks of directories created for the lock)".into()]
    }
}
