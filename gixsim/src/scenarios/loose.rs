//! C11 — loose objects written by gitoxide are git objects and read back exactly (DESIGN §4).
//! Write (buffered / streamed over a faulty reader / typed), read back, let git read them, read what git wrote,
//! enumerate every truncation length of the stored file, and every crash point of the write.
use crate::driver::{ExecCtx, Report, Scenario, Tier};
use crate::fsx;
use crate::io::{Choices, FaultyRead, IoPlan};
use crate::prng::{Fnv, Rng, STREAM_FAULT, STREAM_SWARM, STREAM_WORKLOAD};
use crate::rt;
use gix_odb::Write as _;
use serde::{Deserialize, Serialize};
use serde_json::{json, Value};
use std::path::{Path, PathBuf};
use std::sync::{Arc, Mutex};

pub struct LooseStore;
const P: &str = "C11";

#[derive(Clone, Debug, Serialize, Deserialize)]
pub struct Obj {
    pub kind: u8,
    pub len: usize,
    pub texture: u8,
    pub seed: u64,
    /// 0 write_buf, 1 write_stream, 2 write (typed WriteTo), 3 written by `git hash-object -w`
    pub how: u8,
}
#[derive(Clone, Debug, Serialize, Deserialize)]
pub struct Workload {
    pub objects: Vec<Obj>,
    pub stream_plan: IoPlan,
    /// two threads store the same objects concurrently
    pub two_writers: bool,
    pub crash_points: bool,
    pub truncations: bool,
    pub use_git: bool,
    pub eintr_permille: u32,
    pub sched: Value,
}

fn kind_of(k: u8) -> gix_object::Kind {
    match k % 4 {
        0 => gix_object::Kind::Blob,
        1 => gix_object::Kind::Tree,
        2 => gix_object::Kind::Commit,
        _ => gix_object::Kind::Tag,
    }
}
fn data_of(o: &Obj) -> Vec<u8> {
    let mut r = Rng::new(o.seed);
    match o.texture % 3 {
        0 => r.bytes(o.len),
        1 => (0..o.len).map(|i| b"the quick brown fox\n"[i % 20]).collect(),
        _ => {
            let mut v = Vec::with_capacity(o.len);
            while v.len() < o.len {
                let n = 1 + r.usize_below(200);
                if r.chance(500) {
                    v.extend(std::iter::repeat(r.below(256) as u8).take(n));
                } else {
                    v.extend(r.bytes(n));
                }
            }
            v.truncate(o.len);
            v
        }
    }
}
struct Raw<'a>(gix_object::Kind, &'a [u8]);
impl gix_object::WriteTo for Raw<'_> {
    fn write_to(&self, out: &mut dyn std::io::Write) -> std::io::Result<()> {
        // in two pieces, like a real encoder would
        let (a, b) = self.1.split_at(self.1.len() / 2);
        out.write_all(a)?;
        out.write_all(b)
    }
    fn kind(&self) -> gix_object::Kind {
        self.0
    }
    fn size(&self) -> u64 {
        self.1.len() as u64
    }
}

fn git_batch(objects_dir: &Path, ids: &[gix_hash::ObjectId]) -> Result<Vec<Option<(String, Vec<u8>)>>, String> {
    use std::io::Write;
    let mut child = std::process::Command::new("git")
        .args(["cat-file", "--batch"])
        .env_clear()
        .env("PATH", "/usr/bin:/bin")
        .env("GIT_DIR", objects_dir.parent().unwrap())
        .env("GIT_OBJECT_DIRECTORY", objects_dir)
        .env("GIT_CONFIG_NOSYSTEM", "1")
        .env("GIT_CONFIG_GLOBAL", "/dev/null")
        .env("HOME", "/nonexistent")
        .stdin(std::process::Stdio::piped())
        .stdout(std::process::Stdio::piped())
        .stderr(std::process::Stdio::piped())
        .spawn()
        .map_err(|e| format!("spawn git: {e}"))?;
    {
        let mut stdin = child.stdin.take().unwrap();
        for id in ids {
            writeln!(stdin, "{id}").map_err(|e| e.to_string())?;
        }
    }
    let out = child.wait_with_output().map_err(|e| e.to_string())?;
    let b = out.stdout;
    let mut pos = 0;
    let mut res = vec![];
    for _ in ids {
        let nl = pos + b[pos..].iter().position(|c| *c == b'\n').ok_or_else(|| format!("git cat-file output ended early; stderr: {}", String::from_utf8_lossy(&out.stderr)))?;
        let hdr = String::from_utf8_lossy(&b[pos..nl]).into_owned();
        pos = nl + 1;
        let parts: Vec<&str> = hdr.split(' ').collect();
        if parts.len() == 2 && parts[1] == "missing" {
            res.push(None);
            continue;
        }
        if parts.len() != 3 {
            return Err(format!("unexpected cat-file header {hdr:?}"));
        }
        let size: usize = parts[2].parse().map_err(|_| format!("bad size in {hdr:?}"))?;
        if pos + size > b.len() {
            return Err("git cat-file output truncated".into());
        }
        res.push(Some((parts[1].to_string(), b[pos..pos + size].to_vec())));
        pos += size + 1;
    }
    Ok(res)
}

#[derive(Default)]
struct Shared {
    violations: Mutex<Vec<(String, String)>>,
    written: Mutex<Vec<(usize, gix_hash::ObjectId)>>,
}

fn write_one(store: &gix_odb::loose::Store, o: &Obj, data: &[u8], plan: &IoPlan, ch: &crate::io::Ch) -> Result<gix_hash::ObjectId, String> {
    let kind = kind_of(o.kind);
    match o.how {
        1 => {
            let mut rd = FaultyRead::new(data.to_vec(), plan.clone(), ch.clone());
            store.write_stream(kind, data.len() as u64, &mut rd).map_err(|e| e.to_string())
        }
        2 => store.write(&Raw(kind, data)).map_err(|e| e.to_string()),
        _ => store.write_buf(kind, data).map_err(|e| e.to_string()),
    }
}

fn writer(tid: usize, w: Arc<Workload>, objects_dir: PathBuf, sh: Arc<Shared>, seed: u64) {
    let store = gix_odb::loose::Store::at(&objects_dir, gix_hash::Kind::Sha1);
    let ch = Choices::new(seed ^ tid as u64, STREAM_FAULT, None);
    for (i, o) in w.objects.iter().enumerate() {
        if o.how == 3 {
            continue;
        }
        let data = data_of(o);
        let kind = kind_of(o.kind);
        let want = gix_object::compute_hash(gix_hash::Kind::Sha1, kind, &data);
        fsx::set_phase(Some(format!("w{tid}o{i}")));
        let res = write_one(&store, o, &data, &w.stream_plan, &ch);
        fsx::set_phase(None);
        match res {
            Ok(id) => {
                if id != want {
                    sh.violations.lock().unwrap().push((format!("loose wrong-id how={}", o.how), format!("object {i}: stored under {id}, git's id is {want} (kind {kind}, {} bytes)", data.len())));
                    return;
                }
                sh.written.lock().unwrap().push((i, id));
                // read back immediately
                let mut buf = Vec::new();
                match store.try_find(&id, &mut buf) {
                    Ok(Some(d)) => {
                        if d.kind != kind || d.data != data.as_slice() {
                            sh.violations.lock().unwrap().push((format!("loose read-back-differs how={}", o.how), format!("object {i} ({id}): read back {} {} bytes, wrote {} {} bytes", d.kind, d.data.len(), kind, data.len())));
                            return;
                        }
                    }
                    other => {
                        sh.violations.lock().unwrap().push((format!("loose read-back-failed how={}", o.how), format!("object {i} ({id}): {:?}", other.map(|o| o.map(|d| d.data.len())).map_err(|e| e.to_string()))));
                        return;
                    }
                }
                match store.try_header(&id) {
                    Ok(Some((size, k))) if size == data.len() as u64 && k == kind => {}
                    other => {
                        sh.violations.lock().unwrap().push((format!("loose header-wrong how={}", o.how), format!("object {i} ({id}): try_header = {other:?}, expected ({}, {kind})", data.len())));
                        return;
                    }
                }
                if !store.contains(&id) {
                    sh.violations.lock().unwrap().push(("loose contains-false-after-write".into(), format!("object {i} ({id})")));
                    return;
                }
            }
            Err(e) => {
                let faulted = w.eintr_permille > 0;
                if !faulted || !e.contains("nterrupted") {
                    sh.violations.lock().unwrap().push((format!("loose write-failed how={}", o.how), format!("object {i}: {e}")));
                    return;
                }
            }
        }
    }
}

fn generate(seed: u64, tier: Tier) -> Workload {
    let mut r = Rng::stream(seed, STREAM_WORKLOAD);
    let mut sw = Rng::stream(seed, STREAM_SWARM);
    let crash_points = r.chance(300);
    let n = if crash_points { 1 + r.usize_below(2) } else { 1 + r.usize_below(4) };
    let mut objects = vec![];
    for _ in 0..n {
        let len = match r.below(100) {
            0..=7 => r.usize_below(3),
            8..=29 => r.usize_below(130),
            30..=44 => 4090 + r.usize_below(12),
            45..=54 => 8186 + r.usize_below(12),
            55..=66 => 32_760 + r.usize_below(16),
            67..=74 => 65_530 + r.usize_below(12),
            75..=94 => r.usize_below(5_000),
            _ => r.usize_below(if tier == Tier::Quick { 150_000 } else { 1_500_000 }),
        };
        let len = if crash_points { len.min(20_000) } else { len };
        objects.push(Obj { kind: r.below(4) as u8, len, texture: r.below(3) as u8, seed: r.next_u64() >> 8, how: *r.pick(&[0u8, 0, 1, 1, 2, 3]) });
    }
    let big = objects.iter().any(|o| o.len > 20_000);
    let stream_plan = IoPlan { max_chunk: if big { *r.pick(&[0usize, 4096, 70_000]) } else { *r.pick(&[0usize, 1, 3, 64, 4096]) }, intr_permille: if big { *r.pick(&[0u32, 20]) } else { *r.pick(&[0u32, 50, 300]) }, ..Default::default() };
    let two_writers = !crash_points && r.chance(250);
    Workload { objects, stream_plan, two_writers, crash_points, truncations: !crash_points && r.chance(600), use_git: r.chance(if tier == Tier::Quick { 250 } else { 600 }), eintr_permille: if crash_points { 0 } else { *sw.pick(&[0u32, 0, 0, 30]) }, sched: super::swarm_policy_edges(&mut sw, 200, 3_000) }
}

impl Scenario for LooseStore {
    fn name(&self) -> &'static str {
        "loose_store"
    }
    fn properties(&self) -> &'static [&'static str] {
        &[P]
    }
    fn jobs_hint(&self) -> usize {
        16
    }
    fn cpu_limit_s(&self, _p: &str) -> u64 {
        60
    }
    fn runs(&self, tier: Tier, _p: &str) -> u64 {
        super::tier_pick(tier, 1_800, 150_000)
    }
    fn level(&self, _p: &str) -> &'static str {
        "fault_enumeration"
    }
    fn generate(&self, seed: u64, tier: Tier, _p: &str) -> Value {
        serde_json::to_value(generate(seed, tier)).unwrap()
    }
    fn execute(&self, wv: &Value, ctx: &ExecCtx) -> Report {
        let mut rep = Report::default();
        let w: Workload = match serde_json::from_value(wv.clone()) {
            Ok(w) => w,
            Err(e) => {
                rep.harness_error = Some(format!("bad workload: {e}"));
                return rep;
            }
        };
        let live = ctx.sandbox.join("live");
        let objects_dir = live.join("objects");
        std::fs::create_dir_all(&objects_dir).unwrap();
        std::fs::create_dir_all(live.join("refs")).unwrap();
        std::fs::write(live.join("HEAD"), "ref: refs/heads/main\n").unwrap();
        std::fs::write(live.join("config"), "[core]\n\trepositoryformatversion = 0\n\tbare = true\n").unwrap();
        // objects written by git first (outside the simulation)
        let mut git_written: Vec<(usize, gix_hash::ObjectId)> = vec![];
        for (i, o) in w.objects.iter().enumerate() {
            if o.how == 3 {
                use std::io::Write;
                let data = data_of(o);
                let kind = kind_of(o.kind);
                let mut child = std::process::Command::new("git")
                    .args(["hash-object", "-w", "--stdin", "--literally", "-t", &kind.to_string()])
                    .env_clear()
                    .env("PATH", "/usr/bin:/bin")
                    .env("GIT_DIR", &live)
                    .env("GIT_CONFIG_NOSYSTEM", "1")
                    .env("GIT_CONFIG_GLOBAL", "/dev/null")
                    .env("HOME", "/nonexistent")
                    .stdin(std::process::Stdio::piped())
                    .stdout(std::process::Stdio::piped())
                    .stderr(std::process::Stdio::null())
                    .spawn()
                    .expect("git");
                child.stdin.take().unwrap().write_all(&data).unwrap();
                let out = child.wait_with_output().unwrap();
                if let Ok(id) = gix_hash::ObjectId::from_hex(String::from_utf8_lossy(&out.stdout).trim().as_bytes()) {
                    git_written.push((i, id));
                }
            }
        }
        fsx::configure(fsx::FsCfg { root: live.to_string_lossy().into_owned(), stamp: true, snapshot: w.crash_points, eintr_permille: w.eintr_permille, eintr_writes_only: true, ..Default::default() });
        let mut cfg = ctx.rt_cfg();
        super::apply_swarm(&mut cfg, wv);
        cfg.max_steps = 400_000;
        let sh = Arc::new(Shared::default());
        let wa = Arc::new(w.clone());
        let (sh2, wa2, od2, seed) = (sh.clone(), wa.clone(), objects_dir.clone(), ctx.seed);
        let o = rt::run(cfg, move || {
            let n = if wa2.two_writers { 2 } else { 1 };
            let mut hs = vec![];
            for t in 0..n {
                let (w3, o3, s3) = (wa2.clone(), od2.clone(), sh2.clone());
                hs.push(std::thread::spawn(move || writer(t, w3, o3, s3, seed)));
            }
            for h in hs {
                let _ = h.join();
            }
        });
        let fs = fsx::take().unwrap();
        rep.absorb_outcome(&o);
        if o.deadlock || o.budget_exceeded {
            rep.violate(P, "loose deadlock-or-livelock".to_string(), format!("{:?}", o.blocked));
        } else if !o.panics.is_empty() {
            rep.violate(P, format!("loose panic | {}", o.panics[0].rsplit('/').next().unwrap_or("")), format!("{:?}", o.panics));
        }
        for (s, d) in sh.violations.lock().unwrap().iter() {
            rep.violate(P, s.clone(), d.clone());
        }
        let store = gix_odb::loose::Store::at(&objects_dir, gix_hash::Kind::Sha1);
        let mut buf = Vec::new();
        // what git wrote must read back exactly
        for (i, id) in &git_written {
            let o = &w.objects[*i];
            let data = data_of(o);
            let kind = kind_of(o.kind);
            let want = gix_object::compute_hash(gix_hash::Kind::Sha1, kind, &data);
            if *id != want {
                rep.violate(P, "loose compute-hash-differs-from-git".to_string(), format!("git stored object {i} as {id}, compute_hash says {want}"));
                continue;
            }
            match store.try_find(id, &mut buf) {
                Ok(Some(d)) if d.kind == kind && d.data == data.as_slice() => rep.probe("git-written-read-back"),
                other => rep.violate(P, "loose git-object-read-differs".to_string(), format!("object {i} ({id}) written by git reads as {:?}", other.map(|o| o.map(|d| (d.kind, d.data.len()))).map_err(|e| e.to_string()))),
            }
        }
        let written = sh.written.lock().unwrap().clone();
        // git as second reader
        if w.use_git && !written.is_empty() && rep.violations.is_empty() {
            let ids: Vec<gix_hash::ObjectId> = written.iter().map(|x| x.1).collect();
            match git_batch(&objects_dir, &ids) {
                Ok(res) => {
                    for ((i, id), r) in written.iter().zip(res) {
                        let o = &w.objects[*i];
                        let data = data_of(o);
                        match r {
                            Some((t, d)) if t == kind_of(o.kind).to_string() && d == data => rep.probe("git-read-our-object"),
                            Some((t, d)) => rep.violate(P, format!("loose git-reads-differently how={}", o.how), format!("object {i} ({id}): git sees {t} {} bytes, we wrote {} {} bytes", d.len(), kind_of(o.kind), data.len())),
                            None => rep.violate(P, format!("loose git-cannot-find how={}", o.how), format!("object {i} ({id}) is missing for git")),
                        }
                    }
                }
                Err(e) => rep.harness_error = Some(format!("git cat-file: {e}")),
            }
        }
        // every truncation length of every stored file must be an error, never shorter content
        if w.truncations && rep.violations.is_empty() {
            let scratch = ctx.sandbox.join("scratch");
            for (i, id) in written.iter().chain(git_written.iter()) {
                let path = store.object_path(id);
                let full = match std::fs::read(&path) {
                    Ok(f) => f,
                    Err(_) => continue,
                };
                let o = &w.objects[*i];
                let data = data_of(o);
                let sdir = scratch.join("objects");
                let sstore = gix_odb::loose::Store::at(&sdir, gix_hash::Kind::Sha1);
                let spath = sstore.object_path(id);
                std::fs::create_dir_all(spath.parent().unwrap()).unwrap();
                let lens: Vec<usize> = if full.len() <= 3000 {
                    (0..full.len()).collect()
                } else {
                    let mut r = Rng::new(o.seed ^ 77);
                    let mut v: Vec<usize> = (0..40).collect();
                    v.extend((0..40).map(|k| full.len() - 1 - k));
                    v.extend((0..120).map(|_| r.usize_below(full.len())));
                    v.sort();
                    v.dedup();
                    v
                };
                for l in lens {
                    let _ = std::fs::remove_file(&spath);
                    std::fs::write(&spath, &full[..l]).unwrap();
                    rep.crash_points += 1;
                    match sstore.try_find(id, &mut buf) {
                        Err(_) => {}
                        Ok(None) => rep.violate(P, "loose truncated-file-reported-missing".to_string(), format!("object {i} ({id}) truncated to {l} of {} bytes reads as 'not found' although the file exists", full.len())),
                        Ok(Some(d)) => {
                            if d.data != data.as_slice() {
                                rep.violate(P, format!("loose truncated-file-yields-content how={}", o.how), format!("object {i} ({id}, {} bytes) truncated to {l} of {} file bytes reads Ok with {} bytes", data.len(), full.len(), d.data.len()));
                            } else {
                                // the zlib adler32 trailer may be cut without losing content: still complete and correct
                                rep.probe("truncated-in-trailer-still-exact");
                            }
                        }
                    }
                    if !rep.violations.is_empty() {
                        break;
                    }
                }
                let _ = std::fs::remove_file(&spath);
                rep.probe("truncation-enumerated");
                if !rep.violations.is_empty() {
                    break;
                }
            }
        }
        // crash points: at every mutation the final path is absent or complete, leftovers are temporaries only
        if w.crash_points && rep.violations.is_empty() {
            for s in &fs.snaps {
                rep.crash_points += 1;
                let sdir = s.dir.join("objects");
                let sstore = gix_odb::loose::Store::at(&sdir, gix_hash::Kind::Sha1);
                for (i, o) in w.objects.iter().enumerate() {
                    if o.how == 3 {
                        continue;
                    }
                    let data = data_of(o);
                    let id = gix_object::compute_hash(gix_hash::Kind::Sha1, kind_of(o.kind), &data);
                    let p = sstore.object_path(&id);
                    if p.exists() {
                        match sstore.try_find(&id, &mut buf) {
                            Ok(Some(d)) if d.data == data.as_slice() && d.kind == kind_of(o.kind) => {}
                            other => {
                                rep.violate(P, format!("loose crash-leaves-partial-object how={}", o.how), format!("process death before fs mutation {} ({}): object {i} ({id}) exists at its final path but reads {:?}", s.k, s.label, other.map(|o| o.map(|d| d.data.len())).map_err(|e| e.to_string())));
                                break;
                            }
                        }
                    }
                }
                if !rep.violations.is_empty() {
                    break;
                }
            }
            rep.probe("crash-points-enumerated");
        }
        rep.ops = w.objects.len() as u64;
        rep.nontrivial = true;
        let mut st = Fnv::default();
        for o in &w.objects {
            st.write(&[o.kind, o.how]);
            st.write_u64((o.len as u64).min(70_000) / 1024);
        }
        rep.states.push(st.0);
        rep.log_hash ^= st.0 ^ (written.len() as u64);
        rep.summary = format!("{} objects ({} by git), {} written back, {} truncations/crash points, two_writers={}", w.objects.len(), git_written.len(), written.len(), rep.crash_points, w.two_writers);
        rep
    }
    fn shrink(&self, wv: &Value) -> Vec<Value> {
        let w: Workload = match serde_json::from_value(wv.clone()) {
            Ok(w) => w,
            Err(_) => return vec![],
        };
        let mut out = vec![];
        for i in (0..w.objects.len()).rev() {
            if w.objects.len() > 1 {
                let mut c = w.clone();
                c.objects.remove(i);
                out.push(c);
            }
        }
        for i in 0..w.objects.len() {
            for nl in [0, 1, w.objects[i].len / 2] {
                if nl < w.objects[i].len {
                    let mut c = w.clone();
                    c.objects[i].len = nl;
                    out.push(c);
                }
            }
        }
        for f in [|c: &mut Workload| c.two_writers = false, |c: &mut Workload| c.use_git = false, |c: &mut Workload| c.stream_plan = IoPlan::default(), |c: &mut Workload| c.eintr_permille = 0] {
            let mut c = w.clone();
            f(&mut c);
            out.push(c);
        }
        out.into_iter().map(|c| serde_json::to_value(c).unwrap()).collect()
    }
    fn rule(&self, _p: &str) -> String {
        "1..4 objects of every kind, sizes 0..1.5 MB (boundaries of the 64-byte header buffer, 4 KiB, 8 KiB, 32 KiB, 64 KiB over-weighted), written by write_buf / write_stream over a chunking+Interrupted reader / write(&dyn WriteTo) / git hash-object; every truncation length of every stored file <= 3000 bytes (200 sampled lengths otherwise) and every file-system mutation of the write as crash point; evaluations = runs, crash_points_examined = truncations + crash snapshots; non-trivial = every run; distinct = distinct (workload, decision list)".into()
    }
    fn real_stub(&self) -> Value {
        json!({
            "real": ["gix-odb loose::Store (write, write_buf, write_stream, try_find, try_header, contains)", "gix-features deflate/hash writers, inflate", "tempfile", "kernel tmpfs", "git hash-object / cat-file --batch as second writer and reader"],
            "simulated": ["stream source behaviour (chunking, Interrupted), file-system call order, EINTR on writes, crash points (snapshot before each mutation), two-writer schedules"],
            "stub": [],
        })
    }
    fn assumptions(&self, _p: &str) -> Vec<String> {
        vec!["a file truncated inside the 4-byte adler32 trailer may still read back completely and correctly; that is accepted (the content is exact)".into(), "write_stream is given streams of exactly the announced size (a shorter stream is a caller error)".into()]
    }
}
