//! C56 — streaming compression and hashing do not depend on chunking (DESIGN §4).
//! deflate::Write / hash::Write over short-write / EINTR / failing sinks; hash::bytes, compute_stream_hash and the
//! inflate read helper over chunking / EINTR / truncated sources.
use crate::driver::{ExecCtx, Report, Scenario, Tier};
use crate::io::{catch_panics, Choices, FaultyRead, FaultyWrite, IoPlan};
use crate::prng::{Fnv, Rng, STREAM_FAULT, STREAM_WORKLOAD};
use serde::{Deserialize, Serialize};
use serde_json::{json, Value};
use std::io::{Read, Write};

pub struct ZStream;
const P: &str = "C56";

#[derive(Clone, Debug, Serialize, Deserialize)]
pub struct Workload {
    /// deflate | deflate-two-streams | hash-write | hash-bytes | stream-hash | inflate-read
    pub mode: String,
    pub len: usize,
    pub data_seed: u64,
    /// 0 = random bytes, 1 = highly compressible, 2 = mixed
    pub texture: u8,
    /// sizes of successive write calls (cycled); 0 = an empty write
    pub write_sizes: Vec<usize>,
    pub use_write_all: bool,
    pub extra_flush: bool,
    pub kind: u8,
    pub plan: IoPlan,
    pub bufread_cap: usize,
    pub dst_chunk: usize,
}

fn data(w: &Workload) -> Vec<u8> {
    let mut r = Rng::new(w.data_seed);
    match w.texture {
        0 => r.bytes(w.len),
        1 => (0..w.len).map(|i| b"abcabcabd"[i % 9]).collect(),
        _ => {
            let mut v = Vec::with_capacity(w.len);
            while v.len() < w.len {
                if r.chance(500) {
                    let n = 1 + r.usize_below(300);
                    let b = r.below(256) as u8;
                    v.extend(std::iter::repeat(b).take(n));
                } else {
                    let n = 1 + r.usize_below(300);
                    v.extend(r.bytes(n));
                }
            }
            v.truncate(w.len);
            v
        }
    }
}
fn kind_of(k: u8) -> gix_object::Kind {
    match k % 4 {
        0 => gix_object::Kind::Blob,
        1 => gix_object::Kind::Tree,
        2 => gix_object::Kind::Commit,
        _ => gix_object::Kind::Tag,
    }
}
fn inflate_all(mut z: &[u8]) -> Result<(Vec<Vec<u8>>, usize), String> {
    // decode consecutive zlib streams with the oracle's decoder (flate2's reader)
    let mut outs = vec![];
    let total = z.len();
    while !z.is_empty() {
        let mut d = flate2::bufread::ZlibDecoder::new(z);
        let mut out = vec![];
        d.read_to_end(&mut out).map_err(|e| format!("inflate: {e}"))?;
        let used = d.total_in() as usize;
        if used == 0 {
            return Err("inflate made no progress".into());
        }
        outs.push(out);
        z = &z[used..];
    }
    Ok((outs, total))
}

/// Write `d` in the workload's slice sizes. Returns Err on a sink error.
fn write_slices(out: &mut dyn Write, d: &[u8], w: &Workload) -> std::io::Result<()> {
    let mut pos = 0;
    let mut i = 0;
    let mut guard = 0u64;
    while pos < d.len() {
        guard += 1;
        if guard > 50_000_000 {
            return Err(std::io::Error::new(std::io::ErrorKind::Other, "no progress"));
        }
        let n = if w.write_sizes.is_empty() { d.len() } else { w.write_sizes[i % w.write_sizes.len()] };
        i += 1;
        let end = (pos + n).min(d.len());
        if w.use_write_all {
            out.write_all(&d[pos..end])?;
            pos = end;
        } else {
            match out.write(&d[pos..end]) {
                Ok(k) => {
                    if k == 0 && end > pos {
                        // a writer may not consume anything only if we handed it nothing
                        return Err(std::io::Error::new(std::io::ErrorKind::WriteZero, "write returned 0"));
                    }
                    pos += k;
                }
                Err(e) if e.kind() == std::io::ErrorKind::Interrupted => {}
                Err(e) => return Err(e),
            }
        }
    }
    Ok(())
}

fn run(w: &Workload, seed: u64, replay: Option<Vec<u16>>, rep: &mut Report) -> crate::io::Ch {
    let ch = Choices::new(seed, STREAM_FAULT, replay);
    let d = data(w);
    let interrupt = std::sync::atomic::AtomicBool::new(false);
    let sink_fails = w.plan.err_at.is_some();
    match w.mode.as_str() {
        "deflate" | "deflate-two-streams" => {
            let sink = FaultyWrite::new(w.plan.clone(), ch.clone());
            let mut z = gix_features::zlib::stream::deflate::Write::new(sink);
            let two = w.mode == "deflate-two-streams";
            let half = d.len() / 2;
            let parts: Vec<&[u8]> = if two { vec![&d[..half], &d[half..]] } else { vec![&d[..]] };
            let mut err = false;
            for (i, part) in parts.iter().enumerate() {
                if i > 0 {
                    z.reset();
                }
                if write_slices(&mut z, part, w).is_err() {
                    err = true;
                    break;
                }
                if z.flush().is_err() {
                    err = true;
                    break;
                }
                if w.extra_flush && z.flush().is_err() {
                    err = true;
                    break;
                }
            }
            let out = z.into_inner().out;
            if err {
                if !sink_fails {
                    rep.violate(P, format!("zstream write-failed-without-fault {}", w.mode), format!("len={} sizes={:?}", w.len, &w.write_sizes[..w.write_sizes.len().min(8)]));
                }
            } else {
                match inflate_all(&out) {
                    Ok((outs, _)) => {
                        let got: Vec<u8> = outs.concat();
                        if outs.len() != parts.len() {
                            rep.violate(P, format!("zstream stream-count {}", w.mode), format!("{} zlib streams in the output, {} expected", outs.len(), parts.len()));
                        } else if got != d {
                            let at = got.iter().zip(d.iter()).position(|(a, b)| a != b).unwrap_or(got.len().min(d.len()));
                            rep.violate(P, format!("zstream inflate-differs {}", w.mode), format!("inflated {} bytes, wrote {}; first difference at {at}", got.len(), d.len()));
                        }
                    }
                    Err(e) => rep.violate(P, format!("zstream output-not-a-zlib-stream {}", w.mode), format!("{e}; {} output bytes for {} input bytes", out.len(), d.len())),
                }
            }
        }
        "hash-write" => {
            // what the loose store does: header + data through hash::Write over deflate::Write
            let kind = kind_of(w.kind);
            let sink = FaultyWrite::new(w.plan.clone(), ch.clone());
            let z = gix_features::zlib::stream::deflate::Write::new(sink);
            let mut hw = gix_features::hash::Write::new(z, gix_hash::Kind::Sha1);
            let header = gix_object::encode::loose_header(kind, d.len() as u64);
            let mut err = hw.write_all(&header).is_err();
            if !err {
                err = write_slices(&mut hw, &d, w).is_err();
            }
            if !err {
                err = hw.flush().is_err();
            }
            if err {
                if !sink_fails {
                    rep.violate(P, "zstream write-failed-without-fault hash-write".to_string(), format!("len={}", w.len));
                }
            } else {
                let id = gix_hash::ObjectId::from(hw.hash.digest());
                let want = gix_object::compute_hash(gix_hash::Kind::Sha1, kind, &d);
                if id != want {
                    rep.violate(P, "zstream hash-while-writing-differs".to_string(), format!("{id} vs compute_hash {want}; len={}", w.len));
                }
                let out = hw.inner.into_inner().out;
                match inflate_all(&out) {
                    Ok((outs, _)) => {
                        let got = outs.concat();
                        let mut exp = header.to_vec();
                        exp.extend_from_slice(&d);
                        if got != exp {
                            rep.violate(P, "zstream inflate-differs hash-write".to_string(), format!("inflated {} bytes, expected {}", got.len(), exp.len()));
                        }
                    }
                    Err(e) => rep.violate(P, "zstream output-not-a-zlib-stream hash-write".to_string(), e),
                }
            }
        }
        "hash-write-direct" => {
            // the hashing writer directly over a sink that accepts only part of each write
            let sink = FaultyWrite::new(w.plan.clone(), ch.clone());
            let mut hw = gix_features::hash::Write::new(sink, gix_hash::Kind::Sha1);
            let err = write_slices(&mut hw, &d, w).is_err() || hw.flush().is_err();
            if err {
                if !sink_fails {
                    rep.violate(P, "zstream write-failed-without-fault hash-write-direct".to_string(), format!("len={}", w.len));
                }
            } else {
                let id = gix_hash::ObjectId::from(hw.hash.digest());
                let mut h = gix_features::hash::hasher(gix_hash::Kind::Sha1);
                h.update(&d);
                let want = gix_hash::ObjectId::from(h.digest());
                if id != want {
                    rep.violate(P, "zstream hash-while-writing-differs direct".to_string(), format!("{id} vs one-shot {want}; len={}", w.len));
                }
                if hw.inner.out != d {
                    rep.violate(P, "zstream hash-writer-passes-wrong-bytes".to_string(), format!("{} bytes reached the sink, {} written", hw.inner.out.len(), d.len()));
                }
            }
        }
        "hash-bytes" | "stream-hash" => {
            let kind = kind_of(w.kind);
            let mut rd = FaultyRead::new(d.clone(), w.plan.clone(), ch.clone());
            let mut progress = gix_features::progress::Discard;
            let res = if w.mode == "hash-bytes" {
                gix_features::hash::bytes(&mut rd, d.len() as u64, gix_hash::Kind::Sha1, &mut progress, &interrupt)
            } else {
                gix_object::compute_stream_hash(gix_hash::Kind::Sha1, kind, &mut rd, d.len() as u64, &mut progress, &interrupt)
            };
            let want = if w.mode == "hash-bytes" {
                let mut h = gix_features::hash::hasher(gix_hash::Kind::Sha1);
                h.update(&d);
                gix_hash::ObjectId::from(h.digest())
            } else {
                gix_object::compute_hash(gix_hash::Kind::Sha1, kind, &d)
            };
            let destructive = !w.plan.benign() && (w.plan.flip_at.is_some() || w.plan.eof_at.map_or(false, |e| (e as usize) < d.len()) || w.plan.err_at.map_or(false, |e| (e as usize) < d.len()));
            match res {
                Ok(id) => {
                    if destructive && w.plan.flip_at.is_none() {
                        rep.violate(P, format!("zstream hash-of-cut-stream {}", w.mode), "a truncated/failed stream produced a hash".to_string());
                    } else if w.plan.flip_at.is_none() && id != want {
                        rep.violate(P, format!("zstream stream-hash-differs {}", w.mode), format!("{id} vs one-shot {want}; len={}", w.len));
                    } else if w.plan.flip_at.map_or(false, |(at, _)| (at as usize) < d.len()) && id == want {
                        rep.violate(P, format!("zstream hash-ignores-content {}", w.mode), "a flipped bit did not change the hash".to_string());
                    }
                }
                Err(_) => {
                    if !destructive {
                        rep.violate(P, format!("zstream hash-failed-without-fault {}", w.mode), format!("len={}", w.len));
                    }
                }
            }
        }
        "inflate-read" => {
            let mut e = flate2::write::ZlibEncoder::new(Vec::new(), flate2::Compression::new((w.kind % 10) as u32));
            e.write_all(&d).unwrap();
            let z = e.finish().unwrap();
            let zlen = z.len();
            let rd = FaultyRead::new(z, w.plan.clone(), ch.clone());
            let mut br = std::io::BufReader::with_capacity(w.bufread_cap.max(1), rd);
            let mut state = flate2::Decompress::new(true);
            let mut out = vec![0u8; d.len()];
            let mut pos = 0;
            let mut err = false;
            let mut guard = 0;
            // the destination may be handed over in pieces
            loop {
                guard += 1;
                if guard > 20_000_000 {
                    err = true;
                    break;
                }
                let end = if w.dst_chunk == 0 { out.len() } else { (pos + w.dst_chunk).min(out.len()) };
                match gix_features::zlib::stream::inflate::read(&mut br, &mut state, &mut out[pos..end]) {
                    Ok(0) => break,
                    Ok(n) => {
                        pos += n;
                        if pos == out.len() {
                            break;
                        }
                    }
                    Err(e) if e.kind() == std::io::ErrorKind::Interrupted => continue,
                    Err(_) => {
                        err = true;
                        break;
                    }
                }
            }
            let cut = w.plan.eof_at.map_or(false, |e| (e as usize) < zlen) || w.plan.err_at.map_or(false, |e| (e as usize) < zlen);
            if !cut && w.plan.flip_at.is_none() {
                if err || pos != d.len() || out != d {
                    rep.violate(P, "zstream inflate-read-differs".to_string(), format!("err={err} got {pos} of {} bytes; bufread cap {} dst chunk {}", d.len(), w.bufread_cap, w.dst_chunk));
                }
            } else if cut && !err && pos == d.len() && !d.is_empty() && out == d {
                // a cut *inside the adler32 trailer* may still deliver all content: only flag if the cut is well before the end
                if w.plan.eof_at.map_or(u64::MAX, |e| e).min(w.plan.err_at.unwrap_or(u64::MAX)) + 8 < zlen as u64 {
                    rep.violate(P, "zstream inflate-read-ignores-truncation".to_string(), "complete output from a truncated deflate stream".to_string());
                }
            } else if !err && out[..pos] != d[..pos] && w.plan.flip_at.is_none() {
                rep.violate(P, "zstream inflate-read-wrong-prefix".to_string(), format!("first {pos} bytes differ"));
            }
        }
        _ => {}
    }
    ch
}

fn generate(seed: u64) -> Workload {
    let mut r = Rng::stream(seed, STREAM_WORKLOAD);
    let modes = ["deflate", "deflate", "deflate-two-streams", "hash-write", "hash-write-direct", "hash-bytes", "stream-hash", "inflate-read", "inflate-read"];
    let mode = r.pick(&modes).to_string();
    let len = match r.below(100) {
        0..=9 => r.usize_below(4),
        10..=49 => r.usize_below(3000),
        50..=69 => 32_768 - 3 + r.usize_below(7),
        70..=79 => 65_535 - 3 + r.usize_below(7),
        80..=92 => r.usize_below(200_000),
        _ => 1_000_000 + r.usize_below(3_000_000),
    };
    let n_sizes = 1 + r.usize_below(6);
    let mut write_sizes = vec![];
    for _ in 0..n_sizes {
        write_sizes.push(match r.below(10) {
            0 => 0,
            1 => 1,
            2 => 32_767,
            3 => 32_768,
            4 => 32_769,
            5 => 1 + r.usize_below(100),
            6 => 1 + r.usize_below(10_000),
            7 => 65_536 + r.usize_below(100_000),
            _ => 1 + r.usize_below(1_000_000),
        });
    }
    if write_sizes.iter().all(|s| *s == 0) {
        write_sizes.push(7);
    }
    if len > 100_000 {
        // keep the number of write calls (and decisions) bounded for megabyte inputs
        for s in &mut write_sizes {
            if *s != 0 && *s < 2_000 {
                *s += 4_000;
            }
        }
    }
    let big = len > 20_000;
    let mut plan = IoPlan { max_chunk: if big { *r.pick(&[0usize, 4096, 65_536, 1 << 20]) } else { *r.pick(&[0usize, 1, 2, 7, 64, 4096]) }, intr_permille: if big { *r.pick(&[0u32, 20]) } else { *r.pick(&[0u32, 50, 300]) }, ..Default::default() };
    match r.below(12) {
        0 => plan.err_at = Some(r.below(len as u64 + 20)),
        1 if mode != "deflate" && mode != "deflate-two-streams" && !mode.starts_with("hash-write") => plan.eof_at = Some(r.below(len as u64 + 1)),
        2 if mode == "hash-bytes" || mode == "stream-hash" => plan.flip_at = Some((r.below(len as u64 + 1), 1 << r.below(8))),
        _ => {}
    }
    let mut dst_chunk = *r.pick(&[0usize, 0, 1, 100, 32_768, 70_000]);
    if len > 50_000 && dst_chunk != 0 && dst_chunk < 1000 {
        dst_chunk = 32_768;
    }
    if mode == "inflate-read" {
        // `inflate::read` propagates `Interrupted` from `fill_buf()` after it may already have written to `dst`, so a
        // caller cannot retry it; no caller does (they fail the lookup) and the property does not speak about it:
        // the source only chunks here (DESIGN §4 C56, observation).
        plan.intr_permille = 0;
    }
    Workload { mode, len, data_seed: r.next_u64(), texture: r.below(3) as u8, write_sizes, use_write_all: r.chance(500), extra_flush: r.chance(200), kind: r.below(40) as u8, plan, bufread_cap: *r.pick(&[1usize, 2, 13, 512, 8192, 1 << 17]), dst_chunk }
}

impl Scenario for ZStream {
    fn name(&self) -> &'static str {
        "zstream"
    }
    fn properties(&self) -> &'static [&'static str] {
        &[P]
    }
    fn isolated(&self) -> bool {
        false
    }
    fn jobs_hint(&self) -> usize {
        16
    }
    fn runs(&self, tier: Tier, _p: &str) -> u64 {
        super::tier_pick(tier, 60_000, 3_000_000)
    }
    fn generate(&self, seed: u64, _t: Tier, _p: &str) -> Value {
        serde_json::to_value(generate(seed)).unwrap()
    }
    fn execute(&self, wv: &Value, ctx: &ExecCtx) -> Report {
        let mut rep = Report::default();
        let w: Workload = match serde_json::from_value(wv.clone()) {
            Ok(w) => w,
            Err(e) => {
                rep.harness_error = Some(format!("bad workload: {e}"));
                return rep;
            }
        };
        let mut inner = Report::default();
        let seed = ctx.seed;
        let replay = ctx.replay.clone();
        match catch_panics(|| run(&w, seed, replay, &mut inner)) {
            Ok(ch) => {
                rep = inner;
                let c = ch.borrow();
                rep.decisions = c.rec.clone();
                rep.n_decisions = c.rec.len() as u64;
                rep.faults = c.faults.clone();
                rep.sched_hash = Fnv::of(&c.rec.iter().flat_map(|d| d.to_le_bytes()).collect::<Vec<u8>>());
            }
            Err(msgs) => {
                let loc = msgs.first().map(|m| m.rsplit('/').next().unwrap_or("").to_string()).unwrap_or_default();
                rep.violate(P, format!("zstream panic {} | {loc}", w.mode), format!("{msgs:?}"));
            }
        }
        rep.ops = 1;
        rep.nontrivial = w.len > 0;
        rep.summary = format!("{} len={} texture={} sizes={:?} plan={:?}", w.mode, w.len, w.texture, &w.write_sizes[..w.write_sizes.len().min(4)], w.plan);
        rep.log_hash = Fnv::of(rep.summary.as_bytes()) ^ rep.sched_hash ^ (rep.violations.len() as u64);
        rep.states.push(Fnv::of(w.mode.as_bytes()) ^ (w.len.min(70_000) as u64 / 4096));
        rep
    }
    fn shrink(&self, wv: &Value) -> Vec<Value> {
        let w: Workload = match serde_json::from_value(wv.clone()) {
            Ok(w) => w,
            Err(_) => return vec![],
        };
        let mut out = vec![];
        for nl in [0, 1, w.len / 2, w.len.saturating_sub(1)] {
            if nl < w.len {
                let mut c = w.clone();
                c.len = nl;
                out.push(c);
            }
        }
        if w.write_sizes.len() > 1 {
            for i in 0..w.write_sizes.len() {
                let mut c = w.clone();
                c.write_sizes.remove(i);
                out.push(c);
            }
        }
        for f in [|c: &mut Workload| c.plan.max_chunk = 0, |c: &mut Workload| c.plan.intr_permille = 0, |c: &mut Workload| c.texture = 1, |c: &mut Workload| c.extra_flush = false, |c: &mut Workload| c.dst_chunk = 0] {
            let mut c = w.clone();
            f(&mut c);
            out.push(c);
        }
        out.into_iter().map(|c| serde_json::to_value(c).unwrap()).collect()
    }
    fn rule(&self, _p: &str) -> String {
        "data of 0..4 MiB (random / compressible / mixed; sizes around 32 KiB and 64 KiB over-weighted) x write-size sequences (0, 1, 32767/8/9, large) x sink/source fault plans (short writes, Interrupted, hard error at offset k, early EOF, bit flip) over 6 modes; non-trivial = non-empty data; distinct = distinct (workload, decision list)".into()
    }
    fn real_stub(&self) -> Value {
        json!({
            "real": ["gix_features::zlib::stream::deflate::Write (write, flush, reset)", "gix_features::hash::Write", "gix_features::hash::bytes", "gix_object::compute_stream_hash / compute_hash / encode::loose_header", "gix_features::zlib::stream::inflate::read"],
            "simulated": ["sink and source behaviour (chunking, Interrupted, errors, early EOF, bit flips)"],
            "stub": ["flate2's own reader/encoder as the independent inflate/deflate oracle"],
        })
    }
}
