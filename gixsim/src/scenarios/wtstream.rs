//! C55 (stream part) — worktree streams contain exactly the tree (DESIGN §4).
//! The producer thread and the consuming `Stream` run under the seeded scheduler; object lookups and the attribute
//! callback fail on a fault plan; the consumer reads with seeded buffer sizes, fully, or drops the stream early.
use crate::driver::{ExecCtx, Report, Scenario, Tier};
use crate::prng::{Fnv, Rng, STREAM_SWARM, STREAM_WORKLOAD};
use crate::rt;
use gix_hash::ObjectId;
use gix_object::tree::{EntryKind, EntryMode};
use serde::{Deserialize, Serialize};
use serde_json::{json, Value};
use std::collections::BTreeMap;
use std::sync::atomic::{AtomicUsize, Ordering::SeqCst};
use std::sync::{Arc, Mutex};

pub struct WtStream;
const P: &str = "C55";

#[derive(Clone, Debug, Serialize, Deserialize)]
pub struct Leaf {
    pub path: String,
    /// 0 blob, 1 executable, 2 symlink, 3 submodule (commit entry: not streamed)
    pub kind: u8,
    pub len: usize,
    pub seed: u64,
}
#[derive(Clone, Debug, Serialize, Deserialize)]
pub struct Extra {
    pub path: String,
    /// 0 memory, 1 null, 2 a file on disk (streamed with a length unknown in advance)
    pub source: u8,
    pub len: usize,
}
pub(crate) fn extra_content(e: &Extra) -> Vec<u8> {
    if e.source == 1 {
        return vec![];
    }
    let mut r = Rng::new(e.len as u64 * 31 + e.path.len() as u64);
    (0..e.len).map(|i| if i % 61 == 60 { b'\n' } else { b'A' + (r.below(26) as u8) }).collect()
}
#[derive(Clone, Debug, Serialize, Deserialize)]
pub struct Workload {
    pub leaves: Vec<Leaf>,
    pub extras: Vec<Extra>,
    /// 0 = consume the stream directly; 1 tar, 2 zip, 3 tar.gz: hand it to gix-archive (see archive.rs)
    #[serde(default)]
    pub archive: u8,
    #[serde(default)]
    pub archive_prefix: bool,
    /// the archive sink accepts at most this many bytes per write (0 = all) and reports `Interrupted` every n-th call
    #[serde(default)]
    pub sink_chunk: usize,
    #[serde(default)]
    pub sink_intr_every: usize,
    /// also compare with `git archive` of the same tree
    #[serde(default)]
    pub git_compare: bool,
    pub read_buf: usize,
    /// stop after this many entries (None = all); `mid_entry` = drop while inside the next entry
    pub take: Option<usize>,
    pub mid_entry: bool,
    /// object lookup number k fails (error) / reports missing
    pub find_fail_at: Option<usize>,
    pub find_missing: bool,
    pub attr_fail_at: Option<usize>,
    pub sched: Value,
}

pub(crate) fn content(l: &Leaf) -> Vec<u8> {
    if l.kind == 2 {
        return format!("target-{}", l.seed % 1000).into_bytes();
    }
    let mut r = Rng::new(l.seed);
    (0..l.len).map(|i| if i % 64 == 63 { b'\n' } else { b'a' + (r.below(26) as u8) }).collect()
}
pub(crate) fn hash(kind: gix_object::Kind, d: &[u8]) -> ObjectId {
    gix_object::compute_hash(gix_hash::Kind::Sha1, kind, d)
}

#[derive(Clone)]
pub(crate) struct FaultyFind {
    pub objs: Arc<BTreeMap<ObjectId, (gix_object::Kind, Vec<u8>)>>,
    pub calls: Arc<AtomicUsize>,
    pub fail_at: Option<usize>,
    pub missing: bool,
}
impl gix_object::Find for FaultyFind {
    fn try_find<'a>(&self, id: &gix_hash::oid, buffer: &'a mut Vec<u8>) -> Result<Option<gix_object::Data<'a>>, gix_object::find::Error> {
        let n = self.calls.fetch_add(1, SeqCst);
        if self.fail_at == Some(n) {
            rt::probe("fault:object-lookup");
            if self.missing {
                return Ok(None);
            }
            return Err("injected object lookup failure".into());
        }
        match self.objs.get(&id.to_owned()) {
            Some((k, d)) => {
                buffer.clear();
                buffer.extend_from_slice(d);
                Ok(Some(gix_object::Data { kind: *k, data: buffer }))
            }
            None => Ok(None),
        }
    }
}

/// Build the tree objects bottom-up; returns (root id, objects).
pub(crate) fn build_tree(leaves: &[Leaf]) -> (ObjectId, BTreeMap<ObjectId, (gix_object::Kind, Vec<u8>)>) {
    use gix_object::WriteTo;
    let mut objs = BTreeMap::new();
    #[derive(Default)]
    struct Dir {
        files: Vec<(String, EntryMode, ObjectId)>,
        dirs: BTreeMap<String, Dir>,
    }
    let mut root = Dir::default();
    for l in leaves {
        let comps: Vec<&str> = l.path.split('/').collect();
        let mut d = &mut root;
        for c in &comps[..comps.len() - 1] {
            d = d.dirs.entry(c.to_string()).or_default();
        }
        let data = content(l);
        let (mode, id) = match l.kind {
            0 => (EntryKind::Blob.into(), hash(gix_object::Kind::Blob, &data)),
            1 => (EntryKind::BlobExecutable.into(), hash(gix_object::Kind::Blob, &data)),
            2 => (EntryKind::Link.into(), hash(gix_object::Kind::Blob, &data)),
            _ => (EntryKind::Commit.into(), ObjectId::from_hex(b"1111111111111111111111111111111111111111").unwrap()),
        };
        if l.kind != 3 {
            objs.insert(id, (gix_object::Kind::Blob, data));
        }
        d.files.push((comps[comps.len() - 1].to_string(), mode, id));
    }
    fn write(d: &Dir, objs: &mut BTreeMap<ObjectId, (gix_object::Kind, Vec<u8>)>) -> ObjectId {
        let mut t = gix_object::Tree::empty();
        for (n, m, id) in &d.files {
            t.entries.push(gix_object::tree::Entry { mode: *m, filename: n.as_str().into(), oid: *id });
        }
        for (n, sub) in &d.dirs {
            let id = write(sub, objs);
            t.entries.push(gix_object::tree::Entry { mode: EntryKind::Tree.into(), filename: n.as_str().into(), oid: id });
        }
        t.entries.sort();
        let mut buf = Vec::new();
        t.write_to(&mut buf).unwrap();
        let id = hash(gix_object::Kind::Tree, &buf);
        objs.insert(id, (gix_object::Kind::Tree, buf));
        id
    }
    let id = write(&root, &mut objs);
    (id, objs)
}

#[derive(Default)]
struct Shared {
    got: Mutex<Vec<(String, u16, String, Vec<u8>)>>,
    end: Mutex<String>,
}

fn consume(w: &Workload, root: ObjectId, find: FaultyFind, sh: Arc<Shared>, extra_dir: std::path::PathBuf) {
    use std::io::Read;
    let attr_calls = AtomicUsize::new(0);
    let attr_fail = w.attr_fail_at;
    let mut stream = gix_worktree_stream::from_tree(root, find, gix_filter::Pipeline::default(), move |_path, _mode, _out| -> Result<(), std::io::Error> {
        let n = attr_calls.fetch_add(1, SeqCst);
        if attr_fail == Some(n) {
            rt::probe("fault:attributes");
            return Err(std::io::Error::new(std::io::ErrorKind::Other, "injected attribute failure"));
        }
        Ok(())
    });
    for e in &w.extras {
        stream.add_entry(gix_worktree_stream::AdditionalEntry {
            id: ObjectId::null(gix_hash::Kind::Sha1),
            mode: EntryKind::Blob.into(),
            relative_path: e.path.as_str().into(),
            source: match e.source {
                0 => gix_worktree_stream::entry::Source::Memory(extra_content(e)),
                1 => gix_worktree_stream::entry::Source::Null,
                _ => gix_worktree_stream::entry::Source::Path(extra_dir.join(e.path.replace('/', "_"))),
            },
        });
    }
    let mut n = 0;
    let mut buf = vec![0u8; w.read_buf.max(1)];
    loop {
        if w.take == Some(n) && !w.mid_entry {
            *sh.end.lock().unwrap() = "dropped-early".into();
            break;
        }
        match stream.next_entry() {
            Ok(Some(mut entry)) => {
                let path = entry.relative_path().to_string();
                let mode = entry.mode.0;
                let id = entry.id.to_string();
                let mut data = vec![];
                if w.take == Some(n) && w.mid_entry {
                    let _ = entry.read(&mut buf[..1]);
                    drop(entry);
                    *sh.end.lock().unwrap() = "dropped-mid-entry".into();
                    break;
                }
                let mut err = None;
                loop {
                    match entry.read(&mut buf) {
                        Ok(0) => break,
                        Ok(k) => data.extend_from_slice(&buf[..k]),
                        Err(e) => {
                            err = Some(e.to_string());
                            break;
                        }
                    }
                }
                drop(entry);
                if let Some(e) = err {
                    *sh.end.lock().unwrap() = format!("read-error: {e}");
                    break;
                }
                sh.got.lock().unwrap().push((path, mode, id, data));
                n += 1;
            }
            Ok(None) => {
                *sh.end.lock().unwrap() = "end".into();
                break;
            }
            Err(e) => {
                *sh.end.lock().unwrap() = format!("next-error: {e}");
                break;
            }
        }
    }
    drop(stream);
}

fn generate(seed: u64) -> Workload {
    let mut r = Rng::stream(seed, STREAM_WORKLOAD);
    let mut sw = Rng::stream(seed, STREAM_SWARM);
    let n = r.usize_below(8);
    let dirs = ["", "a/", "a/b/", "c/", "a/b/c/", "z-dir/"];
    let mut leaves = vec![];
    let mut seen = std::collections::BTreeSet::new();
    for i in 0..n {
        let name = format!("{}f{}", r.pick(&dirs), r.below(6));
        // a file and a directory of the same name cannot coexist in a tree
        if !seen.insert(name.clone()) || seen.iter().any(|s: &String| s.starts_with(&format!("{name}/")) || name.starts_with(&format!("{s}/"))) && false {
            continue;
        }
        let len = match r.below(10) {
            0 => 0,
            1 => 65_535,
            2 => 65_536,
            3 => 65_534 + r.usize_below(4),
            4 => 131_070 + r.usize_below(4),
            _ => r.usize_below(300),
        };
        leaves.push(Leaf { path: name, kind: *r.pick(&[0u8, 0, 0, 1, 2, 3]), len, seed: r.next_u64() >> 8 ^ i as u64 });
    }
    let mut extras = vec![];
    for i in 0..r.below(4) {
        extras.push(Extra { path: format!("extra/e{i}"), source: *r.pick(&[0u8, 1, 2, 2]), len: *r.pick(&[0usize, 1, 100, 8_191, 8_192, 8_193, 65_535, 65_536, 70_000, 200_000]) });
    }
    let faulty = r.chance(300);
    let streamed = leaves.iter().filter(|l| l.kind != 3).count();
    // a quarter of the runs hand the stream to gix-archive instead (archive.rs); its own knobs come from their own stream
    let mut ar = Rng::stream(seed, 77);
    let archive = if ar.chance(250) { 1 + ar.below(3) as u8 } else { 0 };
    if archive != 0 {
        return Workload {
            leaves,
            extras,
            archive,
            archive_prefix: ar.chance(500),
            sink_chunk: *ar.pick(&[0usize, 0, 1, 7, 511, 513, 4096, 4096]),
            sink_intr_every: *ar.pick(&[0usize, 0, 3, 50]),
            git_compare: ar.chance(400),
            read_buf: 4096,
            take: None,
            mid_entry: false,
            find_fail_at: None,
            find_missing: false,
            attr_fail_at: None,
            sched: super::swarm_policy_edges(&mut sw, 200, 4_000),
        };
    }
    Workload {
        leaves,
        extras,
        archive: 0,
        archive_prefix: false,
        sink_chunk: 0,
        sink_intr_every: 0,
        git_compare: false,
        read_buf: *r.pick(&[1usize, 7, 64, 4096, 70_000]),
        take: if !faulty && r.chance(300) { Some(r.usize_below(streamed + 2)) } else { None },
        mid_entry: r.chance(500),
        find_fail_at: if faulty && r.chance(600) { Some(r.usize_below(streamed + 4)) } else { None },
        find_missing: r.chance(400),
        attr_fail_at: if faulty && r.chance(400) { Some(r.usize_below(streamed + 4)) } else { None },
        sched: super::swarm_policy_edges(&mut sw, 200, 4_000),
    }
}

impl Scenario for WtStream {
    fn name(&self) -> &'static str {
        "wtstream"
    }
    fn properties(&self) -> &'static [&'static str] {
        &[P]
    }
    fn jobs_hint(&self) -> usize {
        4
    }
    fn runs(&self, tier: Tier, _p: &str) -> u64 {
        super::tier_pick(tier, 6_000, 600_000)
    }
    fn generate(&self, seed: u64, _t: Tier, _p: &str) -> Value {
        serde_json::to_value(generate(seed)).unwrap()
    }
    fn execute(&self, wv: &Value, ctx: &ExecCtx) -> Report {
        let mut rep = Report::default();
        let w: Workload = match serde_json::from_value(wv.clone()) {
            Ok(w) => w,
            Err(e) => {
                rep.harness_error = Some(format!("bad workload: {e}"));
                return rep;
            }
        };
        if w.archive != 0 {
            return super::archive::execute(&w, ctx, wv);
        }
        let (root, objs) = build_tree(&w.leaves);
        let find = FaultyFind { objs: Arc::new(objs), calls: Arc::new(AtomicUsize::new(0)), fail_at: w.find_fail_at, missing: w.find_missing };
        let sh = Arc::new(Shared::default());
        let mut cfg = ctx.rt_cfg();
        super::apply_swarm(&mut cfg, wv);
        cfg.max_steps = 400_000;
        let (w2, sh2, f2) = (w.clone(), sh.clone(), find.clone());
        let extra_dir = ctx.sandbox.join("extras");
        std::fs::create_dir_all(&extra_dir).unwrap();
        for e in w.extras.iter().filter(|e| e.source == 2) {
            std::fs::write(extra_dir.join(e.path.replace('/', "_")), extra_content(e)).unwrap();
        }
        let o = rt::run(cfg, move || consume(&w2, root, f2, sh2, extra_dir));
        rep.absorb_outcome(&o);
        let end = sh.end.lock().unwrap().clone();
        let got = sh.got.lock().unwrap().clone();
        let shape = if w.find_fail_at.is_some() || w.attr_fail_at.is_some() { "faulted" } else if w.take.is_some() { "early-drop" } else { "full" };
        if o.deadlock || o.budget_exceeded {
            rep.violate(P, format!("wtstream {} {shape}", if o.deadlock { "deadlock" } else { "livelock" }), format!("end={end:?} blocked={:?}", o.blocked));
        } else if !o.panics.is_empty() && shape == "faulted" && o.panics.iter().all(|p| p.contains("Failure is impossible as thread blocks on the receiving end")) {
            // add_entry() panics when the producer has already failed and gone away; the statement says nothing about
            // failing object databases, and no wrong entry was delivered: an observation, not a violation (DESIGN §4 C55)
            rep.probe("add_entry-panicked-after-producer-failure");
        } else if !o.panics.is_empty() {
            rep.violate(P, format!("wtstream panic {shape} | {}", o.panics[0].rsplit('/').next().unwrap_or("")), format!("{:?}", o.panics));
        } else {
            // expected leaves
            let mut expect: BTreeMap<String, (u16, String, Vec<u8>)> = BTreeMap::new();
            for l in &w.leaves {
                if l.kind == 3 {
                    continue;
                }
                let d = content(l);
                let mode: EntryMode = match l.kind {
                    0 => EntryKind::Blob.into(),
                    1 => EntryKind::BlobExecutable.into(),
                    _ => EntryKind::Link.into(),
                };
                expect.insert(l.path.clone(), (mode.0, hash(gix_object::Kind::Blob, &d).to_string(), d));
            }
            for e in &w.extras {
                let mode: EntryMode = EntryKind::Blob.into();
                expect.insert(e.path.clone(), (mode.0, ObjectId::null(gix_hash::Kind::Sha1).to_string(), extra_content(e)));
            }
            // everything delivered is exact and delivered once
            let mut seen = std::collections::BTreeSet::new();
            for (path, mode, id, data) in &got {
                if !seen.insert(path.clone()) {
                    rep.violate(P, format!("wtstream entry-twice {shape}"), format!("{path} delivered twice"));
                    break;
                }
                match expect.get(path) {
                    Some((m, i, d)) => {
                        if m != mode || i != id || d != data {
                            rep.violate(P, format!("wtstream entry-differs {shape}"), format!("{path}: mode {mode:o} id {id} {} bytes; expected mode {m:o} id {i} {} bytes", data.len(), d.len()));
                            break;
                        }
                    }
                    None => {
                        rep.violate(P, format!("wtstream unexpected-entry {shape}"), format!("{path} is not in the tree"));
                        break;
                    }
                }
            }
            let faults_hit = o.probes.get("fault:object-lookup").copied().unwrap_or(0) + o.probes.get("fault:attributes").copied().unwrap_or(0);
            if rep.violations.is_empty() {
                match shape {
                    "full" => {
                        if end != "end" {
                            rep.violate(P, "wtstream did-not-end-cleanly full".to_string(), format!("end={end:?} after {} entries", got.len()));
                        } else if got.len() != expect.len() {
                            let missing: Vec<&String> = expect.keys().filter(|k| !seen.contains(*k)).collect();
                            rep.violate(P, "wtstream entries-missing full".to_string(), format!("{} of {} entries delivered; missing {missing:?}", got.len(), expect.len()));
                        }
                    }
                    "faulted" => {
                        // A clean end means "this was everything": after a producer-side failure it may only be reported
                        // if really every entry arrived (some attribute lookups are optional by design and their failure is
                        // ignored); otherwise the consumer must have seen an error.
                        let _ = faults_hit;
                        if end == "end" && got.len() != expect.len() {
                            rep.violate(P, "wtstream clean-end-with-entries-missing faulted".to_string(), format!("the stream ended cleanly after {} of {} entries although a lookup/attribute failure was injected", got.len(), expect.len()));
                        }
                    }
                    _ => {}
                }
            }
        }
        rep.ops = got.len() as u64;
        let st = Fnv::of(format!("{shape}|{end}|{}", got.len()).as_bytes());
        rep.states.push(st);
        rep.log_hash ^= st;
        rep.summary = format!("{} leaves + {} extras, {shape}: {} entries delivered, end={end:?}, threads={}", w.leaves.len(), w.extras.len(), got.len(), o.threads);
        rep
    }
    fn shrink(&self, wv: &Value) -> Vec<Value> {
        let w: Workload = match serde_json::from_value(wv.clone()) {
            Ok(w) => w,
            Err(_) => return vec![],
        };
        let mut out = vec![];
        for i in (0..w.leaves.len()).rev() {
            let mut c = w.clone();
            c.leaves.remove(i);
            out.push(c);
        }
        for i in (0..w.extras.len()).rev() {
            let mut c = w.clone();
            c.extras.remove(i);
            out.push(c);
        }
        for i in 0..w.leaves.len() {
            if w.leaves[i].len > 1 {
                let mut c = w.clone();
                c.leaves[i].len = 1;
                out.push(c);
            }
        }
        out.into_iter().map(|c| serde_json::to_value(c).unwrap()).collect()
    }
    fn rule(&self, _p: &str) -> String {
        "trees of 0..8 leaves (nested directories, empty and >64 KiB blobs around the 65535-byte chunk, executables, symlinks, submodule entries) plus 0..3 additional entries (memory / null / file on disk streamed with unknown length, patterned content of 0..200000 bytes); consumer read sizes 1..70000, full consumption, early drop between or inside entries; object-lookup failure or missing object at the k-th lookup, attribute-callback failure at the k-th call; seeded producer/consumer schedules; non-trivial = >=2 context switches or a fired fault; distinct = distinct (workload, decision list)".into()
    }
    fn real_stub(&self) -> Value {
        json!({
            "real": ["gix_worktree_stream::from_tree, Stream::next_entry, Entry as Read, add_entry", "gix_features::io::pipe", "gix-traverse breadth-first", "gix-filter Pipeline (default: no conversions)", "std::thread, std::sync::mpsc, parking_lot"],
            "simulated": ["producer/consumer scheduling, object-lookup and attribute-callback failures"],
            "stub": ["object database behind gix_object::Find (in-memory map with fault switch)", "attribute callback (no attributes)"],
        })
    }
    fn assumptions(&self, _p: &str) -> Vec<String> {
        vec!["only the stream is covered: tar/zip encodings and agreement with git archive are input-only and not claimed".into(), "filters are the default pipeline (content passes through unchanged)".into()]
    }
}
