//! C23 — registered tempfiles are removed when the process is told to terminate (DESIGN §4).
//!
//! The simulated process installs gix-tempfile's real signal handlers, then 1–2 worker threads run a seeded program
//! of create / write / close / persist / drop / take over tempfiles and lock files. A termination signal is
//! delivered to the running thread either at a chosen scheduling point (an fs call) or after a chosen number of
//! executed basic-block edges (any instruction boundary of the instrumented crates, including the registry's
//! insert/remove with a shard lock held). The real handler chain runs nested in the interrupted operation and the
//! process dies of the signal's default action. The driver's parent then examines what the dead process left:
//! the journal (written atomically w.r.t. the simulation) says which tempfiles were registered and idle, which were
//! inside an operation, and which were persisted.
//!
//! Variant `forked`: the process first registers tempfiles of its own and forks; the child is the simulated
//! process. After the child died of the signal the parent checks that its own tempfiles are still there.
use crate::driver::{ExecCtx, Report, Scenario, Tier};
use crate::fsx;
use crate::prng::{Fnv, Rng, STREAM_SWARM, STREAM_WORKLOAD};
use crate::rt;
use gix_tempfile::{AutoRemove, ContainingDirectory};
use serde::{Deserialize, Serialize};
use serde_json::{json, Value};
use std::collections::BTreeMap;
use std::io::Write;
use std::path::{Path, PathBuf};
use std::sync::atomic::{AtomicI32, Ordering::SeqCst};
use std::sync::{Arc, Mutex};

pub struct Signals;
const P: &str = "C23";

#[derive(Clone, Debug, Serialize, Deserialize)]
pub enum Op {
    /// kind: 0 new(dir) 1 writable_at 2 mark_at 3 lock File 4 lock Marker; dir: 0 = existing d0, 1 = nested n1/n2 created on demand
    New { slot: usize, kind: u8, dir: u8, rm_dirs: bool },
    Write { slot: usize, len: usize },
    Close { slot: usize },
    Persist { slot: usize },
    Drop { slot: usize },
    Take { slot: usize },
    Idle,
}
#[derive(Clone, Debug, Serialize, Deserialize)]
pub struct Workload {
    pub threads: Vec<Vec<Op>>,
    pub forked: bool,
    pub signal: i32,
    /// 0 = at scheduling point number `at`, 1 = after `at` executed edges, 2 = only after the program ended (all idle),
    /// 3 = `at` executed edges after thread `aim.0` started its operation number `aim.1`
    pub mode: u8,
    pub at: u64,
    #[serde(default)]
    pub aim: (usize, usize),
    pub sched: Value,
}

static JOURNAL: AtomicI32 = AtomicI32::new(-1);
/// edges after the begin record of the operation now starting at which the aimed signal is to land (0 = not aimed)
static AIM_NOW: std::sync::atomic::AtomicU64 = std::sync::atomic::AtomicU64::new(0);
fn j(v: Value) {
    let mut line = serde_json::to_vec(&v).unwrap();
    line.push(b'\n');
    let fd = JOURNAL.load(SeqCst);
    rt::bypass(|| unsafe {
        libc::write(fd, line.as_ptr() as *const _, line.len());
    });
    if v["k"] == "B" {
        let a = AIM_NOW.load(SeqCst);
        if a > 0 && v["t"].as_u64() == Some((a >> 32) - 1) {
            AIM_NOW.store(0, SeqCst);
            rt::arm_signal_after_edges(a & 0xffff_ffff);
        }
    }
}
fn on_signal(rt_tid: usize) {
    // no allocation: a fixed line; the runtime numbers the root thread 0 and worker i as i + 1
    let tid = if rt_tid == 0 { 98 } else { rt_tid - 1 };
    let fd = JOURNAL.load(SeqCst);
    let mut buf = *b"{\"k\":\"S\",\"t\": 0}\n";
    if tid >= 10 {
        buf[13] = b'0' + (tid / 10) as u8;
    }
    buf[14] = b'0' + (tid % 10) as u8;
    rt::bypass(|| unsafe {
        libc::write(fd, buf.as_ptr() as *const _, buf.len());
    });
}

enum Slot {
    W(gix_tempfile::Handle<gix_tempfile::handle::Writable>),
    C(gix_tempfile::Handle<gix_tempfile::handle::Closed>),
    LF(gix_lock::File),
    LM(gix_lock::Marker),
}
struct Held {
    key: String,
    slot: Slot,
    /// where a commit/persist puts it
    dest: PathBuf,
    len: usize,
}

fn pattern(key: &str, off: usize, len: usize) -> Vec<u8> {
    let h = Fnv::of(key.as_bytes());
    (off..off + len).map(|i| b'a' + ((h as usize).wrapping_add(i * 7) % 26) as u8).collect()
}
fn hexp(p: &Path, live: &Path) -> String {
    use std::os::unix::ffi::OsStrExt;
    p.strip_prefix(live).unwrap_or(p).as_os_str().as_bytes().iter().map(|b| format!("{b:02x}")).collect()
}
fn unhexp(s: &str) -> PathBuf {
    use std::os::unix::ffi::OsStringExt;
    PathBuf::from(std::ffi::OsString::from_vec((0..s.len() / 2).map(|i| u8::from_str_radix(&s[2 * i..2 * i + 2], 16).unwrap_or(b'?')).collect()))
}

fn worker(tid: usize, ops: Vec<Op>, live: PathBuf, keep: Arc<Mutex<Vec<Held>>>, aim: Option<(usize, u64)>) {
    let mut slots: Vec<Option<Held>> = (0..4).map(|_| None).collect();
    let mut gen = 0usize;
    for (i, op) in ops.iter().enumerate() {
        if matches!(aim, Some((n, _)) if n == i) {
            AIM_NOW.store(aim.map_or(0, |a| a.1) | ((tid as u64 + 1) << 32), SeqCst);
        }
        match op {
            Op::New { slot, kind, dir, rm_dirs } => {
                if slots[*slot].is_some() {
                    continue;
                }
                gen += 1;
                let key = format!("t{tid}g{gen}");
                let d = if *dir == 0 { live.join("d0") } else { live.join("n1").join(format!("n{tid}")) };
                let cd = if *dir == 0 { ContainingDirectory::Exists } else { ContainingDirectory::CreateAllRaceProof(Default::default()) };
                let cleanup = if *rm_dirs && *dir != 0 { AutoRemove::TempfileAndEmptyParentDirectoriesUntil { boundary_directory: live.clone() } } else { AutoRemove::Tempfile };
                let dest = live.join("out").join(format!("{key}.final"));
                j(json!({"k":"B","t":tid,"key":key,"op":"new","i":i}));
                let made: Result<(Slot, PathBuf, PathBuf), String> = match kind {
                    0 => gix_tempfile::new(&d, cd, cleanup).map_err(|e| e.to_string()).and_then(|mut h| {
                        let p = h.with_mut(|f| f.path().to_owned()).map_err(|e| e.to_string())?;
                        Ok((Slot::W(h), p, dest.clone()))
                    }),
                    1 => {
                        let p = d.join(format!("{key}.tmp"));
                        gix_tempfile::writable_at(&p, cd, cleanup).map(|h| (Slot::W(h), p, dest.clone())).map_err(|e| e.to_string())
                    }
                    2 => {
                        let p = d.join(format!("{key}.mark"));
                        gix_tempfile::mark_at(&p, cd, cleanup).map(|h| (Slot::C(h), p, dest.clone())).map_err(|e| e.to_string())
                    }
                    3 => {
                        let res = live.join("d0").join(format!("{key}.res"));
                        gix_lock::File::acquire_to_update_resource(&res, gix_lock::acquire::Fail::Immediately, None).map(|f| {
                            let p = f.lock_path().to_owned();
                            (Slot::LF(f), p, res.clone())
                        }).map_err(|e| e.to_string())
                    }
                    _ => {
                        let res = live.join("d0").join(format!("{key}.mres"));
                        gix_lock::Marker::acquire_to_hold_resource(&res, gix_lock::acquire::Fail::Immediately, None).map(|f| {
                            let p = f.lock_path().to_owned();
                            (Slot::LM(f), p, res.clone())
                        }).map_err(|e| e.to_string())
                    }
                };
                match made {
                    Ok((s, p, dest)) => {
                        j(json!({"k":"E","t":tid,"key":key,"op":"new","ok":true,"path":hexp(&p, &live),"dest":hexp(&dest, &live)}));
                        slots[*slot] = Some(Held { key, slot: s, dest, len: 0 });
                    }
                    Err(e) => j(json!({"k":"E","t":tid,"key":key,"op":"new","ok":false,"err":e})),
                }
            }
            Op::Write { slot, len } => {
                if let Some(h) = slots[*slot].as_mut() {
                    let key = h.key.clone();
                    // the journal knows the length written so far from the successful writes
                    let data = |off: usize| pattern(&key, off, *len);
                    match &mut h.slot {
                        Slot::W(f) => {
                            j(json!({"k":"B","t":tid,"key":key,"op":"write","i":i}));
                            let off = h.len;
                            let r = f.write_all(&data(off));
                            if r.is_ok() {
                                h.len = off + len;
                            }
                            j(json!({"k":"E","t":tid,"key":key,"op":"write","ok":r.is_ok(),"len":off + len}));
                        }
                        Slot::LF(f) => {
                            j(json!({"k":"B","t":tid,"key":key,"op":"write","i":i}));
                            let off = h.len;
                            let r = f.write_all(&data(off));
                            if r.is_ok() {
                                h.len = off + len;
                            }
                            j(json!({"k":"E","t":tid,"key":key,"op":"write","ok":r.is_ok(),"len":off + len}));
                        }
                        _ => {}
                    }
                }
            }
            Op::Close { slot } => {
                if let Some(h) = slots[*slot].take() {
                    let key = h.key.clone();
                    match h.slot {
                        Slot::W(f) => {
                            j(json!({"k":"B","t":tid,"key":key,"op":"close","i":i}));
                            match f.close() {
                                Ok(c) => {
                                    j(json!({"k":"E","t":tid,"key":key,"op":"close","ok":true}));
                                    slots[*slot] = Some(Held { key, slot: Slot::C(c), dest: h.dest, len: h.len });
                                }
                                Err(e) => j(json!({"k":"E","t":tid,"key":key,"op":"close","ok":false,"err":e.to_string(),"gone":true})),
                            }
                        }
                        Slot::LF(f) => {
                            j(json!({"k":"B","t":tid,"key":key,"op":"close","i":i}));
                            match f.close() {
                                Ok(c) => {
                                    j(json!({"k":"E","t":tid,"key":key,"op":"close","ok":true}));
                                    slots[*slot] = Some(Held { key, slot: Slot::LM(c), dest: h.dest, len: h.len });
                                }
                                Err(e) => j(json!({"k":"E","t":tid,"key":key,"op":"close","ok":false,"err":e.to_string(),"gone":true})),
                            }
                        }
                        other => slots[*slot] = Some(Held { key, slot: other, dest: h.dest, len: h.len }),
                    }
                }
            }
            Op::Persist { slot } => {
                if let Some(h) = slots[*slot].take() {
                    let key = h.key.clone();
                    j(json!({"k":"B","t":tid,"key":key,"op":"persist","i":i}));
                    let r: Result<(), (String, Option<Slot>)> = match h.slot {
                        Slot::W(f) => f.persist(&h.dest).map(|_| ()).map_err(|e| (e.error.to_string(), Some(Slot::W(e.handle)))),
                        Slot::C(f) => f.persist(&h.dest).map(|_| ()).map_err(|e| (e.error.to_string(), Some(Slot::C(e.handle)))),
                        Slot::LF(f) => f.commit().map(|_| ()).map_err(|e| (e.error.to_string(), Some(Slot::LF(e.instance)))),
                        Slot::LM(f) => f.commit().map(|_| ()).map_err(|e| (e.error.to_string(), Some(Slot::LM(e.instance)))),
                    };
                    match r {
                        Ok(()) => j(json!({"k":"E","t":tid,"key":key,"op":"persist","ok":true})),
                        Err((e, s)) => {
                            j(json!({"k":"E","t":tid,"key":key,"op":"persist","ok":false,"err":e}));
                            if let Some(s) = s {
                                slots[*slot] = Some(Held { key, slot: s, dest: h.dest, len: h.len });
                            }
                        }
                    }
                }
            }
            Op::Drop { slot } => {
                if let Some(h) = slots[*slot].take() {
                    j(json!({"k":"B","t":tid,"key":h.key,"op":"drop","i":i}));
                    let key = h.key.clone();
                    drop(h);
                    j(json!({"k":"E","t":tid,"key":key,"op":"drop","ok":true}));
                }
            }
            Op::Take { slot } => {
                if let Some(h) = slots[*slot].take() {
                    let key = h.key.clone();
                    match h.slot {
                        Slot::W(f) => {
                            j(json!({"k":"B","t":tid,"key":key,"op":"take","i":i}));
                            let t = f.take();
                            // no longer registered: whatever happens to it now is the owner's business
                            j(json!({"k":"E","t":tid,"key":key,"op":"take","ok":t.is_some()}));
                            drop(t);
                        }
                        Slot::C(f) => {
                            j(json!({"k":"B","t":tid,"key":key,"op":"take","i":i}));
                            let t = f.take();
                            j(json!({"k":"E","t":tid,"key":key,"op":"take","ok":t.is_some()}));
                            drop(t);
                        }
                        other => slots[*slot] = Some(Held { key, slot: other, dest: h.dest, len: h.len }),
                    }
                }
            }
            Op::Idle => {
                // a quiet instant: no tempfile operation in flight on this thread
                let _ = std::fs::metadata(live.join("d0").join("bystander.txt"));
                rt::point(rt::Why::Point);
            }
        }
    }
    let mut k = keep.lock().unwrap();
    for s in slots.into_iter().flatten() {
        k.push(s);
    }
}

fn generate(seed: u64) -> Workload {
    let mut r = Rng::stream(seed, STREAM_WORKLOAD);
    let mut sw = Rng::stream(seed, STREAM_SWARM);
    let nthreads = if r.chance(550) { 1 } else { 2 };
    let mut threads = vec![];
    for _ in 0..nthreads {
        let n = 2 + r.usize_below(9);
        let mut ops = vec![];
        // slot contents as the program will see them (0 empty, 1 writable, 2 closed, 3 lock file, 4 marker), so that
        // nearly every operation does something
        let mut st = [0u8; 3];
        for _ in 0..n {
            let slot = r.usize_below(3);
            let c = r.below(20);
            let op = if st[slot] == 0 || c >= 19 {
                if c >= 19 || r.chance(100) {
                    Op::Idle
                } else {
                    let kind = r.below(5) as u8;
                    st[slot] = [1, 1, 2, 3, 4][kind as usize];
                    Op::New { slot, kind, dir: if r.chance(300) { 1 } else { 0 }, rm_dirs: r.chance(500) }
                }
            } else {
                match c {
                    0..=5 if st[slot] == 1 || st[slot] == 3 => Op::Write { slot, len: *r.pick(&[1usize, 10, 100, 5000]) },
                    6..=8 if st[slot] == 1 || st[slot] == 3 => {
                        st[slot] += 1;
                        Op::Close { slot }
                    }
                    9..=10 if st[slot] <= 2 => {
                        st[slot] = 0;
                        Op::Take { slot }
                    }
                    11..=14 => {
                        st[slot] = 0;
                        Op::Persist { slot }
                    }
                    15..=17 => {
                        st[slot] = 0;
                        Op::Drop { slot }
                    }
                    _ => Op::Idle,
                }
            };
            ops.push(op);
        }
        threads.push(ops);
    }
    let mode = match r.below(20) {
        0 => 2,
        1..=4 => 0,
        5..=9 => 1,
        _ => 3,
    };
    let total_ops: usize = threads.iter().map(|t| t.len()).sum();
    let news: usize = threads.iter().flatten().filter(|o| matches!(o, Op::New { .. })).count();
    let aim_t = r.usize_below(nthreads);
    let mut aim = (aim_t, r.usize_below(threads[aim_t].len()));
    // most aimed signals go for a creation that follows an earlier one: the registry then holds idle entries while
    // it is being mutated
    let later_news: Vec<usize> = threads[aim_t].iter().enumerate().filter(|(_, o)| matches!(o, Op::New { .. })).map(|(i, _)| i).skip(1).collect();
    if !later_news.is_empty() && r.chance(700) {
        aim.1 = *r.pick(&later_news[..]);
    }
    let at = match mode {
        0 => 1 + r.below(2 * total_ops as u64 + 2),
        1 => 1 + r.below(800 * news as u64 + 100 * total_ops as u64 + 300),
        3 => {
            let span = if r.chance(300) { 1500 } else { 300 };
            1 + r.below(span)
        }
        _ => 0,
    };
    let mut sched = super::swarm_policy_edges(&mut sw, 200, 3000);
    sched["point_permille"] = json!(1000);
    Workload { threads, forked: r.chance(250), signal: *r.pick(&[libc::SIGTERM, libc::SIGTERM, libc::SIGINT, libc::SIGQUIT]), mode, at, aim, sched }
}

/// What the dead process should have left behind, from its journal.
fn examine(w: &Workload, sandbox: &Path, how: &str, steps: u64) -> Option<Report> {
    let want = format!("signal{}", w.signal);
    if how != want {
        return None;
    }
    let mut rep = Report { steps, threads: w.threads.len() as u64 + 1, ..Default::default() };
    let live = sandbox.join("live");
    let text = match std::fs::read_to_string(sandbox.join("journal")) {
        Ok(t) => t,
        Err(e) => {
            rep.harness_error = Some(format!("journal unreadable: {e}"));
            return Some(rep);
        }
    };
    #[derive(Default, Debug)]
    struct T {
        path: Option<PathBuf>,
        dest: Option<PathBuf>,
        len: usize,
        /// idle | in:<op> | persisted | dropped | taken | failed
        state: String,
        touched_after_signal: bool,
    }
    let mut ts: BTreeMap<String, T> = BTreeMap::new();
    let mut open: BTreeMap<u64, (String, String)> = BTreeMap::new();
    let mut signalled: Option<u64> = None;
    let mut open_at_signal: Vec<(u64, String, String)> = vec![];
    let mut activity_after = false;
    let mut parent_note: Option<Value> = None;
    for line in text.lines() {
        let v: Value = match serde_json::from_str(line) {
            Ok(v) => v,
            Err(_) => continue, // a line the signal cut short can only be the last one
        };
        match v["k"].as_str() {
            Some("S") => {
                signalled = v["t"].as_u64();
                open_at_signal = open.iter().map(|(t, (k, o))| (*t, k.clone(), o.clone())).collect();
            }
            Some("P") => parent_note = Some(v.clone()),
            Some("F") => {
                *rep.probes.entry("whole-program-steps".into()).or_insert(0) += v["steps"].as_u64().unwrap_or(0);
                *rep.probes.entry("whole-program-edges".into()).or_insert(0) += v["edges"].as_u64().unwrap_or(0);
                *rep.probes.entry("whole-program-ops".into()).or_insert(0) += v["ops"].as_u64().unwrap_or(0);
            }
            Some("B") => {
                let (t, key, op) = (v["t"].as_u64().unwrap_or(99), v["key"].as_str().unwrap_or("").to_string(), v["op"].as_str().unwrap_or("").to_string());
                let e = ts.entry(key.clone()).or_default();
                e.state = format!("in:{op}");
                if signalled.is_some() {
                    activity_after = true;
                    e.touched_after_signal = true;
                }
                open.insert(t, (key, op));
            }
            Some("E") => {
                let (t, key, op, ok) = (v["t"].as_u64().unwrap_or(99), v["key"].as_str().unwrap_or("").to_string(), v["op"].as_str().unwrap_or(""), v["ok"].as_bool().unwrap_or(false));
                open.remove(&t);
                let e = ts.entry(key).or_default();
                if signalled.is_some() {
                    // what an operation reports after the handler may have taken the tempfile from under it says
                    // nothing: the tempfile stays "inside that operation" for the verdict
                    e.touched_after_signal = true;
                    continue;
                }
                match (op, ok) {
                    ("new", true) => {
                        e.path = v["path"].as_str().map(|p| live.join(unhexp(p)));
                        e.dest = v["dest"].as_str().map(|p| live.join(unhexp(p)));
                        e.state = "idle".into();
                    }
                    ("new", false) => e.state = "failed".into(),
                    ("write", _) => {
                        if ok {
                            e.len = v["len"].as_u64().unwrap_or(0) as usize;
                        }
                        e.state = "idle".into();
                    }
                    ("close", true) => e.state = "idle".into(),
                    ("close", false) => e.state = "lost".into(),
                    ("persist", true) => e.state = "persisted".into(),
                    ("persist", false) => e.state = "idle".into(),
                    ("drop", _) => e.state = "dropped".into(),
                    ("take", _) => e.state = "taken".into(),
                    _ => {}
                }
            }
            _ => {}
        }
    }
    let Some(sig_tid) = signalled else {
        rep.harness_error = Some("process died of the signal but the journal has no signal record".into());
        return Some(rep);
    };
    let at_end = sig_tid == 99;
    let registry_busy = !open_at_signal.is_empty() || activity_after;
    *rep.faults.entry(format!("signal:{}", w.signal)).or_insert(0) += 1;
    *rep.faults.entry(if at_end { "signal-after-program-end".to_string() } else if w.mode == 0 { "signal-at-fs-call".to_string() } else if w.mode == 3 { "signal-at-basic-block-edge-aimed-at-op".to_string() } else { "signal-at-basic-block-edge".to_string() }).or_insert(0) += 1;
    for (_, _, op) in &open_at_signal {
        *rep.probes.entry(format!("signal-inside-op:{op}")).or_insert(0) += 1;
    }
    if open_at_signal.is_empty() {
        *rep.probes.entry("signal-while-all-threads-between-ops".into()).or_insert(0) += 1;
    }
    if activity_after {
        *rep.probes.entry("other-thread-ran-ops-during-handler".into()).or_insert(0) += 1;
    }
    if open_at_signal.iter().any(|(t, _, _)| *t != sig_tid) {
        *rep.probes.entry("signal-while-other-thread-inside-op".into()).or_insert(0) += 1;
    }
    rep.nontrivial = !at_end;
    // --- the oracle ---
    let mut n_idle = 0;
    for (key, t) in &ts {
        let exists = |p: &Option<PathBuf>| p.as_ref().map_or(false, |p| p.symlink_metadata().is_ok());
        match t.state.as_str() {
            "idle" if !t.touched_after_signal => {
                n_idle += 1;
                if exists(&t.path) {
                    if registry_busy {
                        rep.violate(P, "signals leak idle-tempfile registry-busy".to_string(), format!("{key} at {} was registered and idle, but survived the signal; at that instant another registry operation was in flight: {:?} (activity during handler: {activity_after})", t.path.as_ref().unwrap().display(), open_at_signal));
                    } else {
                        rep.violate(P, "signals leak idle-tempfile registry-quiet".to_string(), format!("{key} at {} was registered and idle and no thread was inside any tempfile operation, but it survived the signal", t.path.as_ref().unwrap().display()));
                    }
                } else {
                    *rep.probes.entry("idle-tempfile-removed-by-handler".into()).or_insert(0) += 1;
                }
            }
            "persisted" => {
                let d = t.dest.as_ref().unwrap();
                match std::fs::read(d) {
                    Ok(c) => {
                        if c != pattern_all(key, t.len) {
                            rep.violate(P, "signals persisted-file-content".to_string(), format!("{key}: persisted file {} holds {} bytes, expected {} bytes of its pattern", d.display(), c.len(), t.len));
                        } else {
                            *rep.probes.entry("persisted-file-intact".into()).or_insert(0) += 1;
                        }
                    }
                    Err(e) => rep.violate(P, "signals persisted-file-removed".to_string(), format!("{key}: persisted file {} is gone after the signal: {e}", d.display())),
                }
            }
            "dropped" if !t.touched_after_signal => {
                if exists(&t.path) {
                    rep.violate(P, "signals dropped-tempfile-remains".to_string(), format!("{key}: dropped before the signal but {} still exists", t.path.as_ref().unwrap().display()));
                }
            }
            s if s.starts_with("in:") => {
                let op = &s[3..];
                // between creating the file and registering it, it is not a registered tempfile yet: not covered
                if op != "new" && exists(&t.path) && !(op == "persist" && exists(&t.dest)) {
                    rep.violate(P, format!("signals leak checked-out-of-registry op={op}"), format!("{key} at {} was inside `{op}` when the signal arrived (or while the handler ran) and survived it", t.path.as_ref().unwrap().display()));
                } else if op != "new" {
                    *rep.probes.entry(format!("in-flight-tempfile-still-removed:{op}")).or_insert(0) += 1;
                }
            }
            _ => {}
        }
    }
    // bystanders
    for (p, c) in [(live.join("d0").join("bystander.txt"), "bystander"), (live.join("out").join("keep"), "keep")] {
        if std::fs::read_to_string(&p).ok().as_deref() != Some(c) {
            rep.violate(P, "signals foreign-file-removed".to_string(), format!("{} was never registered but is gone or changed", p.display()));
        }
    }
    if w.forked {
        match &parent_note {
            Some(v) if v["missing"].as_array().map_or(false, |a| a.is_empty()) && v["child"].as_str() == Some(want.as_str()) => {
                *rep.probes.entry("forked-parent-tempfiles-intact".into()).or_insert(0) += 1;
            }
            Some(v) if v["child"].as_str() != Some(want.as_str()) => {
                rep.harness_error = Some(format!("forked child ended with {} instead of {want}", v["child"]));
            }
            Some(v) => rep.violate(P, "signals other-process-tempfile-removed".to_string(), format!("tempfiles registered by the parent process were removed by the signalled child: {}", v["missing"])),
            None => rep.harness_error = Some("forked run without parent note".into()),
        }
    }
    rep.ops = w.threads.iter().map(|t| t.len() as u64).sum();
    let mut shape: Vec<String> = open_at_signal.iter().map(|(t, _, o)| format!("{}{o}", if *t == sig_tid { "self:" } else { "other:" })).collect();
    shape.sort();
    let st = Fnv::of(format!("{shape:?} idle={} end={at_end} after={activity_after} mode={}", n_idle.min(3), w.mode).as_bytes());
    rep.states.push(st);
    rep.log_hash = Fnv::of(text.replace(&*sandbox.to_string_lossy(), "$SB").as_bytes());
    rep.summary = format!("signal {} on thread {sig_tid} ({}), in flight: {:?}, {} tempfiles, {} idle", w.signal, if at_end { "after the program" } else { "mid-run" }, open_at_signal, ts.len(), n_idle);
    Some(rep)
}
fn pattern_all(key: &str, len: usize) -> Vec<u8> {
    pattern(key, 0, len)
}

impl Scenario for Signals {
    fn name(&self) -> &'static str {
        "signals"
    }
    fn properties(&self) -> &'static [&'static str] {
        &[P]
    }
    fn jobs_hint(&self) -> usize {
        6
    }
    fn runs(&self, tier: Tier, _p: &str) -> u64 {
        super::tier_pick(tier, 5_000, 400_000)
    }
    fn generate(&self, seed: u64, _t: Tier, _p: &str) -> Value {
        serde_json::to_value(generate(seed)).unwrap()
    }
    fn execute(&self, wv: &Value, ctx: &ExecCtx) -> Report {
        let mut rep = Report::default();
        let w: Workload = match serde_json::from_value(wv.clone()) {
            Ok(w) => w,
            Err(e) => {
                rep.harness_error = Some(format!("bad workload: {e}"));
                return rep;
            }
        };
        unsafe {
            // SIGQUIT's default action dumps core: not here
            let lim = libc::rlimit { rlim_cur: 0, rlim_max: 0 };
            libc::setrlimit(libc::RLIMIT_CORE, &lim);
        }
        let live = ctx.sandbox.join("live");
        std::fs::create_dir_all(live.join("d0")).unwrap();
        std::fs::create_dir_all(live.join("out")).unwrap();
        std::fs::write(live.join("d0").join("bystander.txt"), "bystander").unwrap();
        std::fs::write(live.join("out").join("keep"), "keep").unwrap();
        let jp = std::ffi::CString::new(ctx.sandbox.join("journal").to_string_lossy().as_bytes()).unwrap();
        let fd = unsafe { libc::open(jp.as_ptr(), libc::O_WRONLY | libc::O_CREAT | libc::O_APPEND, 0o644) };
        JOURNAL.store(fd, SeqCst);
        // the registry (and the hash seeds that place ids in its shards) is created on a fresh thread with seeded
        // randomness, so that shard placement is a function of the seed
        rt::set_presim_random(Some(ctx.seed));
        std::thread::spawn(|| gix_tempfile::signal::setup(gix_tempfile::signal::handler::Mode::DeleteTempfilesOnTerminationAndRestoreDefaultBehaviour)).join().unwrap();
        rt::set_presim_random(None);
        if w.forked {
            // this process registers tempfiles of its own, then forks: the child is the simulated process
            let mine: Vec<(gix_tempfile::Handle<gix_tempfile::handle::Writable>, PathBuf)> = (0..2)
                .filter_map(|i| {
                    let p = live.join("d0").join(format!("parent{i}.tmp"));
                    gix_tempfile::writable_at(&p, ContainingDirectory::Exists, AutoRemove::Tempfile).ok().map(|h| (h, p))
                })
                .collect();
            let pid = unsafe { libc::fork() };
            if pid > 0 {
                let mut status = 0;
                unsafe {
                    while libc::waitpid(pid, &mut status, 0) < 0 && *libc::__errno_location() == libc::EINTR {}
                }
                let child = if libc::WIFSIGNALED(status) { format!("signal{}", libc::WTERMSIG(status)) } else { format!("exit{}", libc::WEXITSTATUS(status)) };
                let missing: Vec<String> = mine.iter().filter(|(_, p)| !p.exists()).map(|(_, p)| p.display().to_string()).collect();
                let mut line = serde_json::to_vec(&json!({"k":"P","child":child,"missing":missing,"n":mine.len()})).unwrap();
                line.push(b'\n');
                unsafe {
                    libc::write(fd, line.as_ptr() as *const _, line.len());
                    // end the same way, so that the driver examines the remains (this also removes our own tempfiles)
                    libc::raise(w.signal);
                }
                rep.harness_error = Some("parent survived its own termination signal".into());
                return rep;
            }
            std::mem::forget(mine);
        }
        fsx::configure(fsx::FsCfg { root: live.to_string_lossy().into_owned(), ..Default::default() });
        let mut cfg = ctx.rt_cfg();
        super::apply_swarm(&mut cfg, wv);
        cfg.max_steps = 200_000;
        cfg.signal = w.signal;
        match w.mode {
            0 => cfg.signal_at_step = Some(w.at),
            1 => cfg.signal_at_edge = Some(w.at),
            _ => {}
        }
        rt::set_signal_hook(Some(on_signal));
        let keep: Arc<Mutex<Vec<Held>>> = Arc::new(Mutex::new(vec![]));
        let (k2, w2, live2) = (keep.clone(), w.clone(), live.clone());
        let o = rt::run(cfg, move || {
            let mut hs = vec![];
            for (i, ops) in w2.threads.iter().enumerate() {
                let (ops, l, k) = (ops.clone(), live2.clone(), k2.clone());
                let aim = (w2.mode == 3 && w2.aim.0 == i).then_some((w2.aim.1, w2.at));
                hs.push(std::thread::spawn(move || worker(i, ops, l, k, aim)));
            }
            for h in hs {
                let _ = h.join();
            }
        });
        rep.absorb_outcome(&o);
        if o.deadlock || o.budget_exceeded {
            rep.violate(P, "signals run-did-not-finish".to_string(), format!("deadlock={} budget_exceeded={} (a signal handler that blocks or spins forever)", o.deadlock, o.budget_exceeded));
            return rep;
        }
        if !o.panics.is_empty() {
            rep.violate(P, "signals panic".to_string(), format!("{:?}", o.panics));
            return rep;
        }
        // the program ended without the signal: everything still held is registered and idle — now it arrives
        let held = keep.lock().unwrap().len();
        let fl = format!("{{\"k\":\"F\",\"steps\":{},\"edges\":{},\"ops\":{}}}\n", o.steps, o.edges, w.threads.iter().map(|t| t.len()).sum::<usize>());
        unsafe { libc::write(fd, fl.as_ptr() as *const _, fl.len()) };
        let line = b"{\"k\":\"S\",\"t\":99}\n";
        unsafe {
            libc::write(fd, line.as_ptr() as *const _, line.len());
            libc::raise(w.signal);
        }
        rep.harness_error = Some(format!("process survived the termination signal with {held} tempfiles held"));
        rep
    }
    fn examine_death(&self, how: &str, wv: &Value, sandbox: &Path, _property: &str, steps: u64) -> Option<Report> {
        let w: Workload = serde_json::from_value(wv.clone()).ok()?;
        examine(&w, sandbox, how, steps)
    }
    fn shrink(&self, wv: &Value) -> Vec<Value> {
        let w: Workload = match serde_json::from_value(wv.clone()) {
            Ok(w) => w,
            Err(_) => return vec![],
        };
        let mut out = vec![];
        if w.forked {
            let mut c = w.clone();
            c.forked = false;
            out.push(c);
        }
        for i in (0..w.threads.len()).rev() {
            if w.threads.len() > 1 {
                let mut c = w.clone();
                c.threads.remove(i);
                out.push(c);
            }
            for jx in (0..w.threads[i].len()).rev() {
                if w.threads[i].len() > 1 {
                    let mut c = w.clone();
                    c.threads[i].remove(jx);
                    out.push(c);
                }
            }
        }
        if w.at > 1 {
            for d in [w.at / 2, w.at - 1] {
                let mut c = w.clone();
                c.at = d;
                out.push(c);
            }
        }
        out.into_iter().map(|c| serde_json::to_value(c).unwrap()).collect()
    }
    fn real_stub(&self) -> Value {
        json!({
            "real": ["gix-tempfile (registry, handle, forksafe, signal handler chain via signal-hook)", "gix-lock File/Marker", "gix-fs dir create/remove", "dashmap shard locks (real, pre-emptible at basic-block edges of the monomorphised code)", "kernel signal delivery to the running thread (raise); the default action kills the process", "fork() for the other-process variant"],
            "simulated": ["thread scheduling; the instant of delivery (a scheduling point or an executed-edge count) is chosen by the simulator, not by the kernel"],
            "stub": [],
        })
    }
    fn rule(&self, _p: &str) -> String {
        "after the signalled process is dead: every tempfile that was registered and idle (no operation in flight on it, none started while the handler ran) is gone; persisted files exist with exactly the bytes written; files never registered and tempfiles registered by the parent process still exist; the process dies of the signal".into()
    }
    fn assumptions(&self, _p: &str) -> Vec<String> {
        vec!["a tempfile between creation on disk and insertion into the registry is not yet 'registered' and is exempt".into(), "signal delivered to a thread of the process by raise(); delivery instants are scheduling points or basic-block edges of instrumented crates".into()]
    }
}
