//! gixsim — deterministic simulation with fault injection for gitoxide (see /verif/DESIGN.md).
#![allow(dead_code)]
pub use gixsim_rt::{driver, fsx, io, prng, rt};
mod scenarios;

fn main() {
    gixsim_rt::cli::cli_main(scenarios::all());
}
