#!/bin/bash
# Fourth wave (C30, C31, C49): same protocol — in the scratch worktree (base fadfb1d37): existing tests pass with the patch,
# the demonstration fails with it and passes without. One line per mutant in /tmp/wt/verify4.log.
set -u
LOG=/tmp/wt/verify4.log; : > $LOG
export CARGO_NET_OFFLINE=true
run() { # id mutant testcmd demo_src demo_dst democmd
  local id=$1 m=$2 testcmd=$3 src=$4 dst=$5 democmd=$6
  local wt=/tmp/wt/$id out=/tmp/wt/$id-out/$m
  export CARGO_TARGET_DIR=/tmp/wt/$id-target
  git -C $wt checkout -q -- . ; git -C $wt clean -fdq
  git -C $wt apply $out/patch.diff || { echo "$id $m patch-does-not-apply" >> $LOG; return; }
  (cd $wt && eval "$testcmd") > $out/verify-tests.log 2>&1 && t=ok || t=FAIL
  mkdir -p $(dirname $wt/$dst); cp $out/$src $wt/$dst
  (cd $wt && eval "$democmd") > $out/verify-demo-with.log 2>&1 && dw=PASS || dw=fail
  git -C $wt checkout -q -- .
  (cd $wt && eval "$democmd") > $out/verify-demo-without.log 2>&1 && dwo=pass || dwo=FAIL
  git -C $wt clean -fdq
  echo "$id $m tests=$t demo_with=$dw demo_without=$dwo" >> $LOG
}
J="-j 8 --offline"
T30="cargo test $J -p gix-protocol --features blocking-client && cargo test $J -p gix-protocol --features async-client && cargo test $J -p gix --features blocking-network-client --test gix -- remote:: clone::"
run C30 m1 "$T30" c30_m1_demo.rs gix-protocol/tests/c30_m1_demo.rs "cargo test $J -p gix-protocol --features blocking-client --test c30_m1_demo"
run C30 m2 "$T30" c30_m2_demo.rs gix-protocol/tests/c30_m2_demo.rs "cargo test $J -p gix-protocol --features blocking-client --test c30_m2_demo"
rm -rf /tmp/wt/C30-target
T31="cargo test $J -p gix --features blocking-network-client --test gix -- remote:: clone:: && cargo test $J -p gix --features blocking-network-client --lib"
run C31 m1 "$T31" c31_m1_annotated_tag_on_known_commit.rs gix/tests/c31_m1_annotated_tag_on_known_commit.rs "cargo test $J -p gix --features blocking-network-client --test c31_m1_annotated_tag_on_known_commit"
run C31 m2 "$T31" c31_m2_fast_forward_via_merge_parent.rs gix/tests/c31_m2_fast_forward_via_merge_parent.rs "cargo test $J -p gix --features blocking-network-client --test c31_m2_fast_forward_via_merge_parent"
rm -rf /tmp/wt/C31-target
T49="cargo test $J -p gix-status-tests && cargo test $J --manifest-path gix-status/Cargo.toml && cargo test $J -p gix-index-tests --features gix-features-parallel && cargo test $J --manifest-path gix-index/Cargo.toml && cargo test $J -p gix-worktree-state-tests && cargo test $J -p gix --test gix -- status::"
run C49 m1 "$T49" c49_m1_future_mtime.rs gix-status/tests/tests/c49_m1_future_mtime.rs "cargo test $J -p gix-status-tests --test c49_m1_future_mtime"
run C49 m2 "$T49" c49_m2_file_replaced_by_dir.rs gix-status/tests/tests/c49_m2_file_replaced_by_dir.rs "cargo test $J -p gix-status-tests --test c49_m2_file_replaced_by_dir"
rm -rf /tmp/wt/C49-target
echo done >> $LOG
