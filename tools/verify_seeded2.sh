#!/bin/bash
# Second wave (C22, C29, C42, C56): same protocol as verify_seeded.sh — tests pass with the patch, demo fails with it, passes without.
set -u
LOG=/tmp/wt/verify2.log; : > $LOG
export CARGO_NET_OFFLINE=true
run() { # id mutant testcmd demo_src demo_dst democmd
  local id=$1 m=$2 testcmd=$3 src=$4 dst=$5 democmd=$6
  local wt=/tmp/wt/$id out=/tmp/wt/$id-out/$m
  export CARGO_TARGET_DIR=/tmp/wt/$id-target
  git -C $wt checkout -q -- . ; git -C $wt clean -fdq
  git -C $wt apply $out/patch.diff || { echo "$id $m patch-does-not-apply" >> $LOG; return; }
  (cd $wt && eval "$testcmd") > $out/verify-tests.log 2>&1 && t=ok || t=FAIL
  mkdir -p $(dirname $wt/$dst); cp $out/$src $wt/$dst
  (cd $wt && eval "$democmd") > $out/verify-demo-with.log 2>&1 && dw=PASS || dw=fail
  git -C $wt checkout -q -- .
  (cd $wt && eval "$democmd") > $out/verify-demo-without.log 2>&1 && dwo=pass || dwo=FAIL
  git -C $wt clean -fdq
  echo "$id $m tests=$t demo_with=$dw demo_without=$dwo" >> $LOG
}
P22="cargo test -p 'path+file:///tmp/wt/C22/gix-lock#14.0.0' --offline && cargo test -p 'path+file:///tmp/wt/C22/gix-tempfile#14.0.2' --offline && cargo test -p 'path+file:///tmp/wt/C22/gix-fs#0.11.3' --offline && cargo test -p gix-ref-tests --offline"
run C22 m1 "$P22" demo_m1_boundary.rs gix-lock/tests/demo_m1_boundary.rs "cargo test -p 'path+file:///tmp/wt/C22/gix-lock#14.0.0' --offline --test demo_m1_boundary"
run C22 m2 "$P22" demo_m2_exclusive.rs gix-lock/tests/demo_m2_exclusive.rs "cargo test -p 'path+file:///tmp/wt/C22/gix-lock#14.0.0' --offline --test demo_m2_exclusive"
P29="cargo test -p gix-packetline --features blocking-io,maybe-async/is_sync --offline && cargo test -p gix-packetline --features async-io --offline && cargo test -p gix-transport --features blocking-client,maybe-async/is_sync --offline && cargo test -p gix-protocol --features blocking-client --offline"
run C29 m1 "$P29" c29_m1_oversized_prefix.rs gix-packetline/tests/c29_m1_oversized_prefix.rs "cargo test -p gix-packetline --features blocking-io --test c29_m1_oversized_prefix --offline"
run C29 m2 "$P29" c29_m2_writer_split.rs gix-packetline/tests/c29_m2_writer_split.rs "cargo test -p gix-packetline --features blocking-io --test c29_m2_writer_split --offline"
P42="cargo test -p 'path+file:///tmp/wt/C42/gix-fs#0.11.3' --offline && cargo test -p gix-worktree-tests --offline && cargo test -p gix-worktree-state-tests --offline && cargo test -p gix-status-tests --offline"
run C42 m1 "$P42" c42_m1.rs gix-fs/tests/c42_m1.rs "cargo test -p 'path+file:///tmp/wt/C42/gix-fs#0.11.3' --offline --test c42_m1"
run C42 m2 "$P42" c42_m2.rs gix-fs/tests/c42_m2.rs "cargo test -p 'path+file:///tmp/wt/C42/gix-fs#0.11.3' --offline --test c42_m2"
P56="cargo test -p 'path+file:///tmp/wt/C56/gix-features#0.38.2' --features parallel,rustsha1,io-pipe,walkdir,zlib,crc32 --offline && cargo test -p gix-object@0.44.0 --offline && cargo test -p gix-odb-tests --offline"
run C56 m1 "$P56" c56_m1_deflate_sink.rs gix-features/tests/c56_m1_deflate_sink.rs "cargo test -p 'path+file:///tmp/wt/C56/gix-features#0.38.2' --features zlib,rustsha1 --offline --test c56_m1_deflate_sink"
run C56 m2 "$P56" c56_m2_stream_hash.rs gix-object/tests/c56_m2_stream_hash.rs "cargo test -p gix-object@0.44.0 --offline --test c56_m2_stream_hash"
for id in C22 C29 C42 C56; do rm -rf /tmp/wt/$id-target; done
echo done >> $LOG
