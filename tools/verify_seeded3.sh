#!/bin/bash
# Third wave (C23, C11, C55, C10, C24): same protocol as verify_seeded.sh — in the scratch worktree: tests pass with the patch,
# the demonstration fails with it and passes without. One line per mutant in /tmp/wt/verify3.log.
set -u
LOG=/tmp/wt/verify3.log; : > $LOG
export CARGO_NET_OFFLINE=true
run() { # id mutant testcmd demo_src demo_dst democmd
  local id=$1 m=$2 testcmd=$3 src=$4 dst=$5 democmd=$6
  local wt=/tmp/wt/$id out=/tmp/wt/$id-out/$m
  export CARGO_TARGET_DIR=/tmp/wt/$id-target
  git -C $wt checkout -q -- . ; git -C $wt clean -fdq
  git -C $wt apply $out/patch.diff || { echo "$id $m patch-does-not-apply" >> $LOG; return; }
  (cd $wt && eval "$testcmd") > $out/verify-tests.log 2>&1 && t=ok || t=FAIL
  mkdir -p $(dirname $wt/$dst); cp $out/$src $wt/$dst
  (cd $wt && eval "$democmd") > $out/verify-demo-with.log 2>&1 && dw=PASS || dw=fail
  git -C $wt checkout -q -- .
  (cd $wt && eval "$democmd") > $out/verify-demo-without.log 2>&1 && dwo=pass || dwo=FAIL
  git -C $wt clean -fdq
  echo "$id $m tests=$t demo_with=$dw demo_without=$dwo" >> $LOG
}
J="-j 8 --offline"
T23="cargo test $J --manifest-path gix-tempfile/Cargo.toml --features signals && cargo test $J --manifest-path gix-tempfile/Cargo.toml && cargo test $J --manifest-path gix-lock/Cargo.toml && cargo test $J -p gix-ref-tests"
run C23 m1 "$T23" c23_fork_signal.rs gix-tempfile/tests/c23_fork_signal.rs "cargo test $J --manifest-path gix-tempfile/Cargo.toml --features signals --test c23_fork_signal"
run C23 m2 "$T23" c23_signal_dir_cleanup.rs gix-tempfile/tests/c23_signal_dir_cleanup.rs "cargo test $J --manifest-path gix-tempfile/Cargo.toml --features signals --test c23_signal_dir_cleanup"
rm -rf /tmp/wt/C23-target
T11="cargo test $J -p gix-odb-tests && cargo test $J -p gix-pack-tests --features gix-features-parallel && cargo test $J --manifest-path gix-odb/Cargo.toml"
run C11 m1 "$T11" c11_m1_truncated_loose.rs gix-odb/tests/tests/c11_m1_truncated_loose.rs "cargo test $J -p gix-odb-tests --test c11_m1_truncated_loose"
run C11 m2 "$T11" c11_m2_streamed_short_reads.rs gix-odb/tests/tests/c11_m2_streamed_short_reads.rs "cargo test $J -p gix-odb-tests --test c11_m2_streamed_short_reads"
rm -rf /tmp/wt/C11-target
T55="cargo test $J --manifest-path gix-worktree-stream/Cargo.toml && cargo test $J --manifest-path gix-archive/Cargo.toml"
run C55 m1 "$T55" c55_m1_streamed_content.rs gix-archive/tests/c55_m1_streamed_content.rs "cargo test $J --manifest-path gix-archive/Cargo.toml --test c55_m1_streamed_content"
run C55 m2 "$T55" c55_m2_nested_paths.rs gix-archive/tests/c55_m2_nested_paths.rs "cargo test $J --manifest-path gix-archive/Cargo.toml --test c55_m2_nested_paths"
rm -rf /tmp/wt/C55-target
T10="cargo test $J -p gix-pack-tests --features gix-features-parallel && cargo test $J -p gix-pack-tests && cargo test $J -p gix-odb-tests --features gix-features-parallel && cargo test $J --manifest-path gix-pack/Cargo.toml --all-features"
run C10 m1 "$T10" c10_m1_thin_pack_header_growth.rs gix-pack/tests/tests/c10_m1_thin_pack_header_growth.rs "cargo test $J -p gix-pack-tests --features gix-features-parallel --test c10_m1_thin_pack_header_growth"
run C10 m2 "$T10" c10_m2_corrupt_stream_rejected.rs gix-pack/tests/tests/c10_m2_corrupt_stream_rejected.rs "cargo test $J -p gix-pack-tests --features gix-features-parallel --test c10_m2_corrupt_stream_rejected"
rm -rf /tmp/wt/C10-target
T24="cargo test $J -p gix-index-tests --features gix-features-parallel && cargo test $J -p gix-index-tests && cargo test $J --manifest-path gix-index/Cargo.toml && cargo test $J -p gix-status-tests -p gix-worktree-state-tests"
run C24 m1 "$T24" c24_m1_ieot_thread_limit.rs gix-index/tests/tests/c24_m1_ieot_thread_limit.rs "cargo test $J -p gix-index-tests --features gix-features-parallel --test c24_m1_ieot_thread_limit"
run C24 m2 "$T24" c24_m2_resolve_undo_stages.rs gix-index/tests/tests/c24_m2_resolve_undo_stages.rs "cargo test $J -p gix-index-tests --test c24_m2_resolve_undo_stages"
rm -rf /tmp/wt/C24-target
echo done >> $LOG
