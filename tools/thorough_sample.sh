#!/bin/bash
# tools/thorough_sample.sh [max-wall-seconds] [ids...] — run the thorough tier of each property with a wall-clock cap and keep the verdict lines.
# Writes to a scratch verif dir so that committed evidence (quick tier) is not overwritten.
cap=${1:-600}; shift || true
ids=${@:-C51 C16 C17 C18 C20 C22 C29 C42 C56 C12 C11 C55 C10 C24 C23 C30 C31 C49}
out=/tmp/thorough-sample; mkdir -p $out/verif; cp /verif/known-findings.jsonl $out/verif/
for id in $ids; do
  echo "== $id $(date +%T)" >> $out/log.txt
  (cd /verif && GIXSIM_VERIF_DIR=$out/verif timeout $((cap+300)) ./check $id thorough --max-wall $cap 2>&1 | grep -E "^violation|^VIOLATION|^gixsim: [0-9]|HARNESS|KNOWN" | cut -c1-260 >> $out/log.txt; echo "exit=${PIPESTATUS[0]}" >> $out/log.txt)
done
echo "done $(date +%T)" >> $out/log.txt
