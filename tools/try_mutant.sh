#!/bin/bash
# tools/try_mutant.sh <patch.diff> <PROPERTY> [extra gixsim args]   — apply a change to /repo, run the property's quick check, undo it.
set -u
patch="$1"; prop="$2"; shift 2
cd /repo || exit 2
if ! git diff --quiet; then echo "refusing: /repo has uncommitted changes"; exit 2; fi
git apply "$patch" || { echo "patch does not apply"; exit 2; }
cd /verif; mkdir -p /tmp/gixsim-mutant-run; cp known-findings.jsonl /tmp/gixsim-mutant-run/
GIXSIM_VERIF_DIR=/tmp/gixsim-mutant-run ./check "$prop" quick "$@" 2>&1 | grep -E "^violation|^VIOLATION|^gixsim: [0-9]|KNOWN|HARNESS|error" | cut -c1-300
rc=${PIPESTATUS[0]}
git -C /repo checkout -- .
rm -rf /tmp/gixsim-mutant-run
echo "exit=$rc"
