import sys
#!/usr/bin/env python3
"""Regenerate /verif/MANIFEST.json from the tables below (single source of truth for claimed vs. not-applicable)."""
import json, os, subprocess
HERE = os.path.dirname(os.path.dirname(os.path.abspath(__file__)))

# property -> (scenario, level category, level text, level note, technique, design ref)
CLAIMED = {
}

NA_PURE = {
 "C01": "pure function of the object value (encode/size round-trip); no schedule, clock, fault or interleaving to simulate",
 "C02": "pure function of object bytes (two decoders agree, re-encode verbatim)",
 "C03": "pure comparison function (tree entry order, name lookup)",
 "C04": "deterministic in-memory state machine (tree editor); its write callback carries no stated fault semantics",
 "C05": "pure (ids, hex, prefixes)",
 "C06": "input quantifier only (parsers never crash); the one stream-fed case, pkt-line prefixes, is decided under C29",
 "C07": "pure codec (pack entry headers, deltas); 'from a stream' adds only read_exact",
 "C08": "deterministic function of (pack, request history, cache kind); cache kinds are randomised inside C12 runs, nothing claimed here",
 "C09": "pure (index / multi-index lookup vs. linear scan)",
 "C13": "pure function of a directory layout (alternates resolution)",
 "C14": "pure function of files git wrote (commit-graph)",
 "C15": "pure (ref-name validation / sanitising)",
 "C19": "pure function of the packed-refs buffer (binary search)",
 "C21": "pure function of (reflog content, buffer size); reflog appends are exercised inside C16/C20 without a claim",
 "C25": "pure (index write round-trip)",
 "C26": "pure (config round-trip)",
 "C27": "pure, differential against git (config value interpretation)",
 "C28": "deterministic in-memory history (config edits), no fault or schedule",
 "C32": "pure (refspec matching)",
 "C33": "pure (URL round-trip)",
 "C34": "pure (arguments passed to Command); no process is scheduled",
 "C35": "pure (credential helper message encoding)",
 "C36": "pure (wildmatch)",
 "C37": "pure function of files and path (ignore decisions)",
 "C38": "pure (attribute values)",
 "C39": "pure (pathspec selection)",
 "C40": "pure (refused path names)",
 "C41": "hostile-input property; worker threads write disjoint paths, no fault or schedule is stated",
 "C43": "pure (built-in eol/ident filters; driver processes are outside the statement)",
 "C44": "pure (tree diff)",
 "C45": "pure (text merge identities)",
 "C46": "pure graph algorithm (merge bases)",
 "C47": "pure graph algorithm (commit walks)",
 "C48": "pure function of repository and spec (rev-parse)",
 "C50": "pure function of a directory tree and environment (discovery)",
 "C52": "pure (dates)",
 "C53": "pure (mailmap)",
 "C54": "pure function of an object set (connectivity); missing objects are an input, not an injected fault sequence",
 "C57": "pure (ANSI-C unquoting)",
}
# applicable by DESIGN §1 but whose check is not built (yet): listed as not claimed, with that reason
NOT_BUILT = {
 "C10": "applicable by design (pack_ingest scenario, DESIGN §4) but the check is not built yet",
 "C11": "applicable by design (loose_store scenario) but the check is not built yet",
 "C12": "applicable by design (odb_repack scenario) but the check is not built yet",
 "C16": "applicable by design (refstore scenario) but the check is not built yet",
 "C17": "applicable by design (refstore --contention) but the check is not built yet",
 "C18": "applicable by design (refstore observation oracle) but the check is not built yet",
 "C20": "applicable by design (refstore --crash) but the check is not built yet",
 "C22": "applicable by design (locks scenario) but the check is not built yet",
 "C23": "applicable by design (signals scenario) but the check is not built yet",
 "C24": "applicable by design (index_threads scenario) but the check is not built yet",
 "C29": "applicable by design (pktline scenario) but the check is not built yet",
 "C30": "applicable by design (transport scenario) but the check is not built yet",
 "C31": "applicable by design (transport --fetch scenario) but the check is not built yet",
 "C42": "applicable by design (pathstack scenario) but the check is not built yet",
 "C49": "applicable by design (status_clock scenario) but the check is not built yet",
 "C51": "applicable by design (parallel scenario) but the check is not built yet",
 "C55": "applicable by design (wtstream scenario) but the check is not built yet",
 "C56": "applicable by design (zstream scenario) but the check is not built yet",
}

PORCELAIN = {"C30", "C31", "C49"}

def main():
    extra = {}
    p = os.path.join(HERE, "tools", "claimed.json")
    if os.path.exists(p):
        extra = json.load(open(p))
    claimed = dict(CLAIMED); claimed.update(extra)
    checks = []
    for pid in sorted(claimed):
        c = claimed[pid]
        checks.append({
            "property_id": pid,
            "quick_cmd": f"./check {pid} quick",
            "thorough_cmd": f"./check {pid} thorough",
            "evidence_file": f"/verif/evidence/{pid}.json",
            "replay_cmd_template": "./check replay {path}",
            "engine": "gixsim-porcelain" if pid in PORCELAIN else "gixsim",
            "level_claimed": {"category": c["level"], "text": c["text"], "design_ref": c.get("design_ref", "DESIGN.md §4")},
            "level_note": c["note"],
            "technique": c["technique"],
        })
    na = []
    for pid, r in sorted({**NA_PURE, **{k: v for k, v in NOT_BUILT.items() if k not in claimed}}.items()):
        na.append({"property_id": pid, "reason": r})
    hooks_commits = []
    hp = os.path.join(HERE, "tools", "hook_commits.txt")
    if os.path.exists(hp):
        hooks_commits = [l.strip() for l in open(hp) if l.strip() and not l.startswith("#")]
    m = {
        "version": 1,
        "setup_cmd": "./check build",
        "hooks": {
            "guard": "--cfg gix_verif",
            "enable": "RUSTFLAGS='--cfg gix_verif --cfg rustix_use_libc' (set in /verif/gixsim/.cargo/config.toml; rustix_use_libc only switches the rustix dependency to its libc backend)",
            "baseline_off_cmd": "cd /repo && cargo nextest run --workspace --no-fail-fast --test-threads 8 --offline || cargo test --workspace --no-fail-fast --offline",
            "source_commits": hooks_commits,
            "add_only": True,
        },
        "engines": [{
            "name": "gixsim-porcelain",
            "path": "/verif/gixsim-porcelain",
            "serves_properties": sorted(p for p in claimed if p in PORCELAIN),
            "kind_free_text": "the same simulator crate (gixsim/rt) driving gix-protocol, gix-transport and gix: a real git upload-pack process as peer behind a simulated byte transport with quiescence detection and seeded side-band re-framing (peer.rs); simulated clock for status",
        }, {
            "name": "gixsim",
            "path": "/verif/gixsim",
            "serves_properties": sorted(p for p in claimed if p not in PORCELAIN),
            "kind_free_text": "deterministic simulation with fault injection: libc-seam runtime (futex/clock/random/thread emulation, seeded baton scheduler over real threads), simulated-disk layer with crash points and errno faults, faulty stream wrappers, fork-per-run driver with replay files and minimisation",
        }],
        "checks": checks,
        "not_applicable": na,
        "notes": "See DESIGN.md. Exit codes of every check: 0 held, 1 violation (VIOLATION line with replay file), 2 harness error.",
    }
    # never write a manifest the schema rejects
    import subprocess, tempfile
    with tempfile.NamedTemporaryFile("w", suffix=".json", delete=False) as t:
        json.dump(m, t, indent=1)
    v = subprocess.run(["python3-vt", "-c", "import json,jsonschema,sys; jsonschema.validate(json.load(open(sys.argv[1])), json.load(open('/root/.vp/MANIFEST.schema.json')))", t.name], capture_output=True, text=True)
    os.unlink(t.name)
    if v.returncode != 0:
        sys.exit("MANIFEST would be invalid, not written:\n" + v.stderr[-1500:])
    json.dump(m, open(os.path.join(HERE, "MANIFEST.json"), "w"), indent=1)
    print(f"MANIFEST.json: {len(checks)} checks, {len(na)} not applicable")

if __name__ == "__main__":
    main()
