#!/bin/bash
# tools/verify_seeded.sh — confirm, in scratch worktrees under /tmp/wt, what the sub-agents reported for each seeded change:
#   (1) with the patch the existing tests of the affected crates still pass,
#   (2) the demonstration fails with the patch, (3) and passes without it.
# Writes one line per mutant to /tmp/wt/verify.log:  <id> <mutant> tests=<ok|FAIL> demo_with=<fail|PASS> demo_without=<pass|FAIL>
set -u
LOG=/tmp/wt/verify.log; : > $LOG
export CARGO_NET_OFFLINE=true
run() { # id mutant testcmd demo_src demo_dst democmd
  local id=$1 m=$2 testcmd=$3 src=$4 dst=$5 democmd=$6
  local wt=/tmp/wt/$id out=/tmp/wt/$id-out/$m
  export CARGO_TARGET_DIR=/tmp/wt/$id-target
  git -C $wt checkout -q -- . ; git -C $wt clean -fdq
  git -C $wt apply $out/patch.diff || { echo "$id $m patch-does-not-apply" >> $LOG; return; }
  (cd $wt && eval "$testcmd") > $out/verify-tests.log 2>&1 && t=ok || t=FAIL
  mkdir -p $(dirname $wt/$dst); cp $out/$src $wt/$dst
  (cd $wt && eval "$democmd") > $out/verify-demo-with.log 2>&1 && dw=PASS || dw=fail
  git -C $wt checkout -q -- .
  (cd $wt && eval "$democmd") > $out/verify-demo-without.log 2>&1 && dwo=pass || dwo=FAIL
  git -C $wt clean -fdq
  echo "$id $m tests=$t demo_with=$dw demo_without=$dwo" >> $LOG
}
REFT='cargo test -p gix-ref-tests --offline && cargo test -p gix-ref@0.47.0 --offline'
run C16 m1 "$REFT" c16_m1_demo.rs gix-ref/tests/tests/c16_m1_demo.rs 'cargo test -p gix-ref-tests --offline --test c16_m1_demo'
run C16 m2 "$REFT" c16_m2_demo.rs gix-ref/tests/tests/c16_m2_demo.rs 'cargo test -p gix-ref-tests --offline --test c16_m2_demo'
run C17 m1 "$REFT" c17_m1_demo.rs gix-ref/tests/tests/c17_m1_demo.rs 'cargo test -p gix-ref-tests --offline --test c17_m1_demo'
run C17 m2 "$REFT && cargo test -p gix-lock@14.0.0 --offline && cargo test -p gix-utils@0.1.12 --offline" c17_m2_demo.rs gix-ref/tests/tests/c17_m2_demo.rs 'cargo test -p gix-ref-tests --offline --test c17_m2_demo'
run C18 m1 "$REFT" c18_m1.rs gix-ref/tests/tests/c18_m1.rs 'cargo test -p gix-ref-tests --offline --test c18_m1'
run C18 m2 "$REFT" c18_m2.rs gix-ref/tests/tests/c18_m2.rs 'cargo test -p gix-ref-tests --offline --test c18_m2'
FEAT='cargo test -p gix-features --features parallel,rustsha1,io-pipe,walkdir,zlib,crc32 --offline && cargo test -p gix-pack-tests --features gix-features-parallel --offline'
run C51 m1 "$FEAT" c51_m1_demo.rs gix-features/tests/c51_m1_demo.rs 'cargo test -p gix-features --features parallel,rustsha1,io-pipe,walkdir,zlib,crc32 --offline --test c51_m1_demo'
run C51 m2 "$FEAT" c51_m2_demo.rs gix-features/tests/c51_m2_demo.rs 'cargo test -p gix-features --features parallel,rustsha1,io-pipe,walkdir,zlib,crc32 --offline --test c51_m2_demo'
# C20: the agent's own driver scripts (strace-based crash injection)
for m in m1 m2; do
  id=C20; wt=/tmp/wt/$id; out=/tmp/wt/$id-out/$m; export CARGO_TARGET_DIR=/tmp/wt/$id-target
  git -C $wt checkout -q -- . ; git -C $wt clean -fdq
  git -C $wt apply $out/patch.diff
  (cd $wt && eval "$REFT && cargo test -p gix-lock@14.0.0 --offline && cargo test -p gix-tempfile@14.0.2 --offline") > $out/verify-tests.log 2>&1 && t=ok || t=FAIL
  git -C $wt checkout -q -- .
  $out/run-demo.sh $wt with-patch > $out/verify-demo-with.log 2>&1 && dw=PASS || dw=fail
  $out/run-demo.sh $wt without-patch > $out/verify-demo-without.log 2>&1 && dwo=pass || dwo=FAIL
  git -C $wt checkout -q -- . ; git -C $wt clean -fdq
  echo "$id $m tests=$t demo_with=$dw demo_without=$dwo" >> $LOG
done
for id in C16 C17 C18 C20 C51; do rm -rf /tmp/wt/$id-target; done
echo done >> $LOG
