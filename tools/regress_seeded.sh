#!/bin/bash
# tools/regress_seeded.sh [ids...] — run every stored seeded change against the quick tier of its property (sequentially: each run
# patches /repo and reverts it) and report caught / MISSED. Log: /tmp/regress-seeded.log
set -u
LOG=/tmp/regress-seeded.log; : > $LOG
cd /verif
for d in /verif/seeded/*/; do
  n=$(basename $d); id=${n%-m*}
  if [ $# -gt 0 ] && ! echo " $* " | grep -q " $id "; then continue; fi
  p=${d}patch.diff
  git -C /repo apply --check $p 2>/dev/null || p=$(ls ${d}patch-rebased-*.diff 2>/dev/null | head -1)
  out=$(tools/try_mutant.sh $p $id 2>&1 | tail -1)
  case "$out" in exit=1) r=caught ;; exit=0) r=MISSED ;; *) r="ERROR($out)" ;; esac
  echo "$n $r $(date +%T)" >> $LOG
done
echo done >> $LOG
