#!/bin/bash
# tools/all_quick.sh <seed> [scratch|commit] — run every registered quick check with VERIF_SEED=<seed>.
# "scratch" (default) writes evidence/replays to /tmp/all-quick-<seed>; "commit" writes to /verif (evidence to be committed).
seed=${1:-1}; where=${2:-scratch}
ids=$(python3 -c "import json;print(' '.join(c['property_id'] for c in json.load(open('/verif/MANIFEST.json'))['checks']))")
out=/tmp/all-quick-$seed; mkdir -p $out
if [ "$where" = scratch ]; then mkdir -p $out/verif; cp /verif/known-findings.jsonl $out/verif/; export GIXSIM_VERIF_DIR=$out/verif; fi
: > $out/log.txt
for id in $ids; do
  t0=$(date +%s)
  (cd /verif && VERIF_SEED=$seed ./check $id quick > $out/$id.out 2>&1); rc=$?
  echo "$id exit=$rc $(( $(date +%s) - t0 ))s $(grep -c '^KNOWN-FINDING' $out/$id.out) known $(grep -E '^VIOLATION|HARNESS' $out/$id.out | head -2 | tr '\n' ' ' | cut -c1-200)" >> $out/log.txt
done
echo done >> $out/log.txt
