//! A real `git` server process as the peer of a simulated transport.
//!
//! The client talks to the child's stdin/stdout through [`PeerRead`] / [`PeerWrite`], which put the seeded fault plan
//! (chunk sizes, `Interrupted`, short writes, a connection drop at byte k) between gitoxide and the pipes.
//! Determinism: what the client can observe must not depend on how fast the child runs. Before a read is served, the
//! pump waits until the child is *quiescent* — blocked reading its stdin, or exited — draining its stdout all the
//! while (`/proc/<pid>/syscall` tells). Everything the server is going to say before it needs more input is then in
//! the buffer, and the seeded plan alone decides how it is cut up.
use gixsim_rt::io::{Choices, IoPlan};
use std::io::{self, Read, Write};
use std::os::unix::io::AsRawFd;
use std::process::{Child, ChildStdin, ChildStdout, Command, Stdio};
use std::sync::{Arc, Mutex};

pub struct Peer {
    child: Child,
    stdin: Option<ChildStdin>,
    stdout: ChildStdout,
    buf: Vec<u8>,
    pos: usize,
    eof: bool,
    pub read_plan: IoPlan,
    pub write_plan: IoPlan,
    pub ch: Choices,
    /// everything the server said / was told, for the report
    pub received: u64,
    pub sent: Vec<u8>,
    pub dropped: bool,
    pub pump_error: Option<String>,
    /// Re-frame side-band data (see `normalize`): needed whenever a pack is relayed, because the server cuts its
    /// child's output into side-band packets as it happens to arrive, and writes wall-clock dependent progress text.
    pub reframe_sideband: bool,
    raw: Vec<u8>,
    band1: Vec<u8>,
}
pub type SharedPeer = Arc<Mutex<Peer>>;

#[derive(PartialEq, Debug)]
enum St {
    ReadsStdin,
    Exited,
    Busy,
}

impl Peer {
    pub fn spawn(mut cmd: Command, read_plan: IoPlan, write_plan: IoPlan, ch: Choices) -> io::Result<SharedPeer> {
        let mut child = cmd.stdin(Stdio::piped()).stdout(Stdio::piped()).stderr(Stdio::null()).spawn()?;
        let stdin = child.stdin.take();
        let stdout = child.stdout.take().unwrap();
        unsafe {
            let fd = stdout.as_raw_fd();
            let fl = libc::fcntl(fd, libc::F_GETFL);
            libc::fcntl(fd, libc::F_SETFL, fl | libc::O_NONBLOCK);
        }
        Ok(Arc::new(Mutex::new(Peer { child, stdin, stdout, buf: vec![], pos: 0, eof: false, read_plan, write_plan, ch, received: 0, sent: vec![], dropped: false, pump_error: None, reframe_sideband: false, raw: vec![], band1: vec![] })))
    }
    fn state(&self) -> St {
        let pid = self.child.id();
        if let Ok(stat) = std::fs::read_to_string(format!("/proc/{pid}/stat")) {
            // pid (comm) S ...
            if let Some(i) = stat.rfind(')') {
                let s = stat[i + 1..].trim_start().chars().next().unwrap_or('?');
                if s == 'Z' || s == 'X' {
                    return St::Exited;
                }
            }
        } else {
            return St::Exited;
        }
        match std::fs::read_to_string(format!("/proc/{pid}/syscall")) {
            Ok(s) => {
                let mut it = s.split_whitespace();
                // "0 0x0 ..." = read(0, ..)
                if it.next() == Some("0") && it.next() == Some("0x0") {
                    // blocked in read(0) for real only if nothing we wrote is still waiting in the pipe
                    if let Some(si) = &self.stdin {
                        let mut pending: libc::c_int = 0;
                        unsafe { libc::ioctl(si.as_raw_fd(), libc::FIONREAD, &mut pending) };
                        if pending > 0 {
                            return St::Busy;
                        }
                    }
                    St::ReadsStdin
                } else {
                    St::Busy
                }
            }
            Err(_) => St::Exited,
        }
    }
    fn drain(&mut self) -> usize {
        let mut n = 0;
        let mut tmp = [0u8; 65536];
        loop {
            match self.stdout.read(&mut tmp) {
                Ok(0) => {
                    self.eof = true;
                    return n;
                }
                Ok(k) => {
                    if self.reframe_sideband {
                        self.raw.extend_from_slice(&tmp[..k]);
                    } else {
                        self.buf.extend_from_slice(&tmp[..k]);
                    }
                    n += k;
                }
                Err(e) if e.kind() == io::ErrorKind::WouldBlock => return n,
                Err(e) if e.kind() == io::ErrorKind::Interrupted => {}
                Err(e) => {
                    self.pump_error = Some(e.to_string());
                    self.eof = true;
                    return n;
                }
            }
        }
    }
    /// The server's stream is pkt-line framed throughout. Two things in it depend on timing and not on the
    /// repositories: how pack data (band 1) is cut into side-band packets, and the progress text (band 2). Band 1 runs
    /// are merged and cut again at seeded sizes (1..=65515 bytes of data per packet) — the simulator, not the
    /// kernel's scheduling of two processes, decides the packetisation; band 2 packets are dropped, which is what a
    /// server honouring `no-progress` sends. Everything else passes through byte for byte.
    fn normalize(&mut self) {
        let mut out = std::mem::take(&mut self.buf);
        let raw = std::mem::take(&mut self.raw);
        let mut p = 0;
        loop {
            if p + 4 > raw.len() {
                break;
            }
            let len = match std::str::from_utf8(&raw[p..p + 4]).ok().and_then(|h| usize::from_str_radix(h, 16).ok()) {
                Some(l) => l,
                None => {
                    // not pkt-line framed (cannot happen with upload-pack): pass the rest through
                    self.flush_band1(&mut out);
                    out.extend_from_slice(&raw[p..]);
                    p = raw.len();
                    break;
                }
            };
            if len < 4 {
                self.flush_band1(&mut out);
                out.extend_from_slice(&raw[p..p + 4]);
                p += 4;
                continue;
            }
            if p + len > raw.len() {
                break; // incomplete line: wait for more
            }
            let payload = &raw[p + 4..p + len];
            match payload.first() {
                Some(1) => self.band1.extend_from_slice(&payload[1..]),
                Some(2) => {
                    // (how many there are depends on timing: note the fact, not the number)
                    if !self.ch.faults.contains_key("progress-packets-dropped") {
                        self.ch.note("progress-packets-dropped");
                    }
                }
                _ => {
                    self.flush_band1(&mut out);
                    out.extend_from_slice(&raw[p..p + len]);
                }
            }
            p += len;
        }
        self.raw = raw[p..].to_vec();
        if self.eof {
            self.flush_band1(&mut out);
            out.extend_from_slice(&self.raw);
            self.raw.clear();
        }
        self.buf = out;
    }
    fn flush_band1(&mut self, out: &mut Vec<u8>) {
        let data = std::mem::take(&mut self.band1);
        let mut p = 0;
        while p < data.len() {
            let left = data.len() - p;
            let want = match self.ch.decide(6, |r| r.usize_below(6)) {
                0 => 65515,
                1 => 8192,
                2 => 1000,
                3 => 1 + (left % 97),
                4 => 1,
                _ => 32_000,
            };
            // tiny packets only for a stretch, or a large pack costs millions of them
            let n = if want == 1 && left > 64 { 1 + (p % 3) } else { want }.min(left);
            out.extend_from_slice(format!("{:04x}", n + 5).as_bytes());
            out.push(1);
            out.extend_from_slice(&data[p..p + n]);
            p += n;
        }
        if !data.is_empty() {
            self.ch.note("sideband-reframed");
        }
    }

    /// Collect everything the server says until it waits for us (or is gone).
    fn pump(&mut self) {
        self.pump_raw();
        if self.reframe_sideband {
            self.normalize();
        }
    }
    fn pump_raw(&mut self) {
        let t0 = std::time::Instant::now();
        // waiting is done in poll(2) on the server's stdout with a growing time-out, not by spinning over /proc: on a busy
        // machine the server may take milliseconds to be scheduled, and a polling client only makes that worse
        let mut wait_us: u64 = 50;
        loop {
            if self.eof {
                return;
            }
            // order matters: look at the state first, then drain — what a server that is already waiting had to say
            // is in the pipe by then
            let st = self.state();
            let n = self.drain();
            if self.eof {
                return;
            }
            if st == St::ReadsStdin && self.stdin.is_some() {
                return;
            }
            if n == 0 {
                self.wait_readable(wait_us);
                wait_us = (wait_us * 2).min(4_000);
            } else {
                wait_us = 50;
            }
            if t0.elapsed().as_secs() > 600 {
                self.pump_error = Some("server neither answered nor waited for input within 600s".into());
                self.eof = true;
                return;
            }
        }
    }
    fn wait_readable(&self, micros: u64) {
        let mut fds = libc::pollfd { fd: self.stdout.as_raw_fd(), events: libc::POLLIN, revents: 0 };
        let ts = libc::timespec { tv_sec: 0, tv_nsec: (micros * 1000) as i64 };
        unsafe { libc::ppoll(&mut fds, 1, &ts, std::ptr::null()) };
    }
    pub fn close_stdin(&mut self) {
        self.stdin = None;
    }
    /// End of the conversation: close our side, collect the rest, reap the child. Returns its exit status.
    pub fn finish(&mut self) -> Option<i32> {
        self.stdin = None;
        let t0 = std::time::Instant::now();
        while !self.eof && t0.elapsed().as_secs() < 60 {
            let n = self.drain();
            if n == 0 && !self.eof {
                self.wait_readable(2_000);
            }
        }
        if !self.eof {
            let _ = self.child.kill();
        }
        self.child.wait().ok().and_then(|s| s.code())
    }
    pub fn unread(&self) -> usize {
        self.buf.len() - self.pos
    }
}
impl Drop for Peer {
    fn drop(&mut self) {
        self.stdin = None;
        let _ = self.child.kill();
        let _ = self.child.wait();
    }
}

fn chunk(ch: &mut Choices, plan: &IoPlan, want: usize) -> usize {
    if want <= 1 || plan.max_chunk == 0 {
        return want;
    }
    if plan.max_chunk == 1 {
        return 1;
    }
    let cap = want.min(plan.max_chunk);
    let c = ch.decide(cap, |r| if r.chance(300) { 0 } else { r.usize_below(cap) });
    if c == 0 {
        cap
    } else {
        c
    }
}

pub struct PeerRead(pub SharedPeer);
pub struct PeerWrite(pub SharedPeer);

impl Read for PeerRead {
    fn read(&mut self, out: &mut [u8]) -> io::Result<usize> {
        let mut g = self.0.lock().unwrap();
        let p = &mut *g;
        if out.is_empty() {
            return Ok(0);
        }
        if p.ch.coin("read-interrupted", p.read_plan.intr_permille) {
            return Err(io::Error::new(io::ErrorKind::Interrupted, "injected EINTR"));
        }
        if p.pos == p.buf.len() {
            p.pump();
        }
        let mut lim = p.buf.len();
        if let Some(e) = p.read_plan.eof_at {
            // the connection drops after byte e of the server's stream
            let abs_start = p.received as usize;
            let allowed = (e as usize).saturating_sub(abs_start);
            if allowed < lim - p.pos {
                lim = p.pos + allowed;
                if lim == p.pos {
                    if !p.dropped {
                        p.dropped = true;
                        p.ch.note("connection-dropped");
                    }
                    return Ok(0);
                }
            }
        }
        if p.pos >= lim {
            return Ok(0);
        }
        let want = out.len().min(lim - p.pos);
        let n = chunk(&mut p.ch, &p.read_plan, want);
        if n < want {
            p.ch.note("short-read");
        }
        out[..n].copy_from_slice(&p.buf[p.pos..p.pos + n]);
        p.pos += n;
        p.received += n as u64;
        if p.pos == p.buf.len() {
            p.buf.clear();
            p.pos = 0;
        }
        Ok(n)
    }
}
impl Write for PeerWrite {
    fn write(&mut self, data: &[u8]) -> io::Result<usize> {
        let mut g = self.0.lock().unwrap();
        let p = &mut *g;
        if data.is_empty() {
            return Ok(0);
        }
        if p.ch.coin("write-interrupted", p.write_plan.intr_permille) {
            return Err(io::Error::new(io::ErrorKind::Interrupted, "injected EINTR"));
        }
        let n = chunk(&mut p.ch, &p.write_plan, data.len());
        if n < data.len() {
            p.ch.note("short-write");
        }
        if p.eof {
            // the server is gone (seen at a quiescent point, so at the same byte every time)
            return Err(io::Error::new(io::ErrorKind::BrokenPipe, "server closed the connection"));
        }
        match p.stdin.as_mut() {
            Some(s) => {
                // the pipe may be full while the server is itself blocked writing to us: keep its output moving
                let mut off = 0;
                unsafe {
                    let fd = s.as_raw_fd();
                    let fl = libc::fcntl(fd, libc::F_GETFL);
                    libc::fcntl(fd, libc::F_SETFL, fl | libc::O_NONBLOCK);
                }
                let t0 = std::time::Instant::now();
                while off < n {
                    match p.stdin.as_mut().unwrap().write(&data[off..n]) {
                        Ok(k) => off += k,
                        Err(e) if e.kind() == io::ErrorKind::WouldBlock => {
                            p.drain();
                            p.wait_readable(200);
                            if t0.elapsed().as_secs() > 180 {
                                return Err(io::Error::new(io::ErrorKind::TimedOut, "server does not read"));
                            }
                        }
                        Err(e) if e.kind() == io::ErrorKind::Interrupted => {}
                        Err(e) => return Err(e),
                    }
                }
                p.sent.extend_from_slice(&data[..n]);
                // Let the server take what it was given before the client goes on: whether (and when) the server gives
                // up on the conversation is then a function of the bytes it has seen, not of how fast it runs.
                p.pump_raw();
                Ok(n)
            }
            None => Err(io::Error::new(io::ErrorKind::BrokenPipe, "peer stdin closed")),
        }
    }
    fn flush(&mut self) -> io::Result<()> {
        Ok(())
    }
}
