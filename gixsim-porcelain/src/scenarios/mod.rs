//! Scenario registry of the porcelain harness (properties that need gix-protocol / gix-transport / gix itself).
use gixsim_rt::driver::Scenario;

pub mod fetch;
pub mod status;
pub mod transport;

pub fn all() -> Vec<&'static dyn Scenario> {
    vec![&transport::Transport, &fetch::Fetch, &status::StatusClock]
}
