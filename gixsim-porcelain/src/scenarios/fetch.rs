//! C31 — fetching reproduces the server's objects and references (DESIGN §4).
//!
//! A server repository made by git moves through a seeded sub-sequence of states (fast-forward, forced update,
//! new and deleted branches, annotated / lightweight / moved tags, merge, a long run of commits, HEAD switching).
//! After each move two identical clients fetch: one with gitoxide — `Remote::to_connection_with_transport` over the
//! simulated transport of `peer.rs` (seeded chunking, `Interrupted`, short writes) against a real `git upload-pack` —
//! the other, its twin, with `git fetch` and the same refspecs, tag mode, protocol version and depth.
//!
//! Oracle after every fetch: `git for-each-ref` of both clients is the same list, `git fsck --connectivity-only`
//! finds nothing missing in the gitoxide client, and for shallow fetches `.git/shallow` is the same set.
use crate::peer::{Peer, PeerRead, PeerWrite};
use gixsim_rt::driver::{ExecCtx, Report, Scenario, Tier};
use gixsim_rt::io::{Choices, IoPlan};
use gixsim_rt::prng::{Fnv, Rng, STREAM_FAULT, STREAM_WORKLOAD};
use gix_transport::client::git::ConnectMode;
use serde::{Deserialize, Serialize};
use serde_json::{json, Value};
use std::path::Path;
use std::process::Command;

pub struct Fetch;
const P: &str = "C31";
pub const N_STATES: usize = 9;

#[derive(Clone, Debug, Serialize, Deserialize)]
pub struct Workload {
    /// strictly increasing server states the clients fetch from, one fetch each
    pub states: Vec<usize>,
    pub version: u8,
    /// index into REFSPECS
    pub refspecs: usize,
    /// 0 default (follow), 1 none, 2 all
    pub tags: u8,
    /// depth of the first fetch (0 = full history)
    pub depth: u32,
    /// if the first fetch was shallow: deepen the boundary by this many commits in the second fetch (`git fetch --deepen=n`)
    #[serde(default)]
    pub deepen: u32,
    pub read_plan: IoPlan,
    pub write_plan: IoPlan,
    /// instead of fetching into a prepared repository: clone the first state (gitoxide's own file transport, no seam)
    /// next to `git clone --no-checkout`, then go on fetching the other states through the seam
    #[serde(default)]
    pub clone: bool,
}

pub const REFSPECS: &[&[&str]] = &[
    &["+refs/heads/*:refs/remotes/origin/*"],
    &["refs/heads/*:refs/remotes/origin/*"],
    &["+refs/heads/main:refs/remotes/origin/main"],
    &["+refs/heads/*:refs/remotes/origin/*", "+refs/tags/*:refs/tags/*"],
    &["+refs/heads/*:refs/remotes/origin/*", "^refs/heads/dev"],
    &["+refs/heads/main:refs/remotes/origin/main", "+refs/heads/feature/*:refs/remotes/origin/feature/*"],
    &["+refs/heads/*:refs/heads/mirror/*"],
];

pub const FIXTURE_SH: &str = r#"
set -eu
dir="$1"; cd "$dir"
[ -f done-c31v2 ] && exit 0
export GIT_AUTHOR_NAME=a GIT_AUTHOR_EMAIL=a@e GIT_COMMITTER_NAME=c GIT_COMMITTER_EMAIL=c@e
export GIT_CONFIG_NOSYSTEM=1 GIT_CONFIG_GLOBAL=/dev/null HOME="$dir"
t=1700000000
commit() { t=$((t+60)); echo "$1 $t" >> "f-$1"; git add -A; GIT_AUTHOR_DATE="$t +0000" GIT_COMMITTER_DATE="$t +0000" git commit -qm "$1"; }
atag() { t=$((t+60)); GIT_COMMITTER_DATE="$t +0000" git tag -a -m "$1" "$@"; }
save() { rm -rf "../state-$1"; git clone -q --mirror . "../state-$1"; git -C "../state-$1" symbolic-ref HEAD "$(git symbolic-ref HEAD)"; git -C "../state-$1" config gc.auto 0; git -C "../state-$1" config pack.threads 1; }
rm -rf work; git init -q -b main work; cd work; git config gc.auto 0
# 0
commit a; git tag light; commit b; atag v1; git branch dev; commit c; git checkout -q dev; commit d1; git checkout -q main; save 0
# 1: fast-forward of main
commit e; commit f; save 1
# 2: forced update of dev (rewound and continued elsewhere)
git checkout -q dev; git reset -q --hard HEAD~1; commit d2; git checkout -q main; save 2
# 3: new branch, deleted branch
git checkout -q -b feature/x; commit x1; commit x2; git checkout -q main; git branch -q -D dev; save 3
# 4: new annotated tag on main, lightweight tag on the feature branch, an annotated tag of something no branch has
atag v2; git tag l2 feature/x; git checkout -q --detach; commit side; atag offside; git checkout -q main; save 4
# 5: merge, many commits, HEAD switches, tag v1 moved, light tag deleted
GIT_AUTHOR_DATE="$((t+30)) +0000" GIT_COMMITTER_DATE="$((t+30)) +0000" git merge -q --no-ff -m merge feature/x
for i in $(seq 1 25); do commit "m$i"; done
# the feature branch fast-forwards to a commit on main: its old tip is an ancestor through the merge's second parent only
git branch -q -f feature/x HEAD~20
t=$((t+60)); GIT_COMMITTER_DATE="$t +0000" git tag -f -a -m v1moved v1 >/dev/null; git tag -d light >/dev/null
git symbolic-ref HEAD refs/heads/feature/x; save 5; git symbolic-ref HEAD refs/heads/main; git checkout -q -f main
# 6: a new root (unrelated history) force-pushed over main, a branch whose name nests under a former file name
git checkout -q --orphan fresh; git rm -rfq .; commit r1; commit r2; git branch -q -f main fresh; git checkout -q main; git branch -q -D fresh; git branch feature/x/deeper 2>/dev/null || true; save 6
# 7: like 6, with a detached HEAD on the server
save 7; git -C ../state-7 update-ref --no-deref HEAD "$(git rev-parse main~1)"
# 8: like 6, with an unborn HEAD on the server (HEAD names a branch that does not exist)
save 8; git -C ../state-8 symbolic-ref HEAD refs/heads/not-yet
cd ..
# client template: an empty repository with the remote configured by the harness at run time
rm -rf client-template; git init -q -b main client-template; git -C client-template config gc.auto 0; git -C client-template config pack.threads 1; git -C client-template config fetch.writeCommitGraph false; git -C client-template config user.name client; git -C client-template config user.email client@example.com
touch done-c31v2
"#;

fn git(dir: &Path) -> Command {
    let mut c = Command::new("git");
    c.arg("-C").arg(dir).env("LC_ALL", "C").env("GIT_CONFIG_NOSYSTEM", "1").env("GIT_CONFIG_GLOBAL", "/dev/null").env_remove("GIT_PROTOCOL").env_remove("GIT_DIR");
    c
}
fn out(c: &mut Command) -> Result<String, String> {
    let o = c.output().map_err(|e| e.to_string())?;
    if !o.status.success() {
        return Err(format!("{:?}: {} {}", c, String::from_utf8_lossy(&o.stdout), String::from_utf8_lossy(&o.stderr)));
    }
    Ok(String::from_utf8_lossy(&o.stdout).into_owned())
}
fn copy_tree(from: &Path, to: &Path) -> Result<(), String> {
    let _ = std::fs::remove_dir_all(to);
    let s = Command::new("cp").arg("-a").arg(from).arg(to).status().map_err(|e| e.to_string())?;
    if s.success() {
        Ok(())
    } else {
        Err(format!("cp -a {} {} failed", from.display(), to.display()))
    }
}
fn chain(e: &dyn std::error::Error) -> String {
    let mut s = e.to_string();
    let mut cur = e.source();
    while let Some(c) = cur {
        s.push_str(" <- ");
        s.push_str(&c.to_string());
        cur = c.source();
    }
    s
}

fn generate(seed: u64) -> Workload {
    let mut r = Rng::stream(seed, STREAM_WORKLOAD);
    let n = 1 + r.usize_below(3);
    let mut states: Vec<usize> = (0..N_STATES).collect();
    while states.len() > n {
        let i = r.usize_below(states.len());
        states.remove(i);
    }
    let plan = |r: &mut Rng| IoPlan { max_chunk: *r.pick(&[0usize, 0, 1, 7, 100, 4000, 70_000]), intr_permille: *r.pick(&[0u32, 0, 30, 200]), ..Default::default() };
    let read_plan = plan(&mut r);
    let write_plan = plan(&mut r);
    Workload { states, version: *r.pick(&[1u8, 2, 2]), refspecs: r.usize_below(REFSPECS.len()), tags: *r.pick(&[0u8, 0, 0, 1, 2]), depth: *r.pick(&[0u32, 0, 0, 0, 1, 2]), deepen: *r.pick(&[0u32, 0, 1, 2]), read_plan, write_plan, clone: r.chance(200) }
}

fn gix_fetch(client: &Path, srv: &Path, w: &Workload, depth: u32, deepen: u32, seed: u64, replay: Option<Vec<u16>>, rep: &mut Report) -> Result<String, String> {
    let mut cmd = Command::new("git");
    cmd.arg("upload-pack").arg(srv).env("LC_ALL", "C").env("GIT_CONFIG_NOSYSTEM", "1").env("GIT_CONFIG_GLOBAL", "/dev/null").env_remove("GIT_PROTOCOL");
    if w.version != 1 {
        cmd.env("GIT_PROTOCOL", format!("version={}", w.version));
    }
    let ch = Choices::new_plain(seed, STREAM_FAULT, replay);
    let peer = Peer::spawn(cmd, w.read_plan.clone(), w.write_plan.clone(), ch).map_err(|e| format!("HARNESS spawn: {e}"))?;
    peer.lock().unwrap().reframe_sideband = true;
    let desired = if w.version == 2 { gix_transport::Protocol::V2 } else { gix_transport::Protocol::V1 };
    let (p1, p2) = (peer.clone(), peer.clone());
    let (client2, srv2, tags) = (client.to_owned(), srv.to_owned(), w.tags);
    let res = gixsim_rt::io::catch_panics(move || -> Result<String, String> {
        let repo = gix::open_opts(&client2, gix::open::Options::isolated()).map_err(|e| format!("open: {}", chain(&e)))?;
        let remote = repo.find_remote("origin").map_err(|e| format!("find_remote: {}", chain(&e)))?;
        let remote = remote.with_fetch_tags(match tags {
            1 => gix::remote::fetch::Tags::None,
            2 => gix::remote::fetch::Tags::All,
            _ => gix::remote::fetch::Tags::Included,
        });
        let transport = gix_transport::client::git::Connection::new(PeerRead(p1), PeerWrite(p2), desired, srv2.to_string_lossy().into_owned(), None::<(String, Option<u16>)>, ConnectMode::Process, false);
        let conn = remote.to_connection_with_transport(transport);
        let mut prep = conn.prepare_fetch(gix_features::progress::Discard, Default::default()).map_err(|e| format!("prepare_fetch: {}", chain(&e)))?;
        if let Some(d) = std::num::NonZeroU32::new(depth) {
            prep = prep.with_shallow(gix::remote::fetch::Shallow::DepthAtRemote(d));
        } else if deepen > 0 {
            prep = prep.with_shallow(gix::remote::fetch::Shallow::Deepen(deepen));
        }
        let interrupt = std::sync::atomic::AtomicBool::new(false);
        let outcome = prep.receive(gix_features::progress::Discard, &interrupt).map_err(|e| format!("receive: {}", chain(&e)))?;
        Ok(match outcome.status {
            gix::remote::fetch::Status::NoPackReceived { .. } => "no-pack".to_string(),
            gix::remote::fetch::Status::Change { write_pack_bundle, .. } => format!("pack:{}", write_pack_bundle.index.num_objects),
        })
    });
    let mut g = peer.lock().unwrap();
    let _ = g.finish();
    for (k, v) in &g.ch.faults {
        *rep.faults.entry(k.clone()).or_insert(0) += v;
    }
    rep.decisions.extend_from_slice(&g.ch.rec);
    rep.steps += g.received + g.sent.len() as u64;
    if std::env::var_os("GIXSIM_WIRE").is_some() {
        eprintln!("--- sent to the server ---\n{}", String::from_utf8_lossy(&g.sent));
    }
    if let Some(e) = &g.pump_error {
        return Err(format!("HARNESS pump: {e}"));
    }
    match res {
        Ok(r) => r,
        Err(p) => Err(format!("PANIC {p:?}")),
    }
}

impl Scenario for Fetch {
    fn name(&self) -> &'static str {
        "fetch"
    }
    fn properties(&self) -> &'static [&'static str] {
        &[P]
    }
    fn isolated(&self) -> bool {
        false
    }
    fn jobs_hint(&self) -> usize {
        8
    }
    fn runs(&self, tier: Tier, _p: &str) -> u64 {
        match tier {
            Tier::Quick => 250,
            Tier::Thorough => 30_000,
        }
    }
    fn worker_init(&self, dir: &Path, _tier: Tier) {
        let o = Command::new("bash").arg("-c").arg(FIXTURE_SH).arg("fixture").arg(dir).output().expect("bash");
        if !o.status.success() {
            eprintln!("gixsim: fetch fixture script failed: {} {}", String::from_utf8_lossy(&o.stdout), String::from_utf8_lossy(&o.stderr));
            std::process::exit(2);
        }
    }
    fn generate(&self, seed: u64, _t: Tier, _p: &str) -> Value {
        serde_json::to_value(generate(seed)).unwrap()
    }
    fn execute(&self, wv: &Value, ctx: &ExecCtx) -> Report {
        let mut rep = Report::default();
        let w: Workload = match serde_json::from_value(wv.clone()) {
            Ok(w) => w,
            Err(e) => {
                rep.harness_error = Some(format!("bad workload: {e}"));
                return rep;
            }
        };
        // in-process scenario: its own scratch directory
        let sb = gixsim_rt::driver::sandbox_base().join(format!("fetch-{}-{:x}", std::process::id(), ctx.seed));
        let _ = std::fs::remove_dir_all(&sb);
        std::fs::create_dir_all(&sb).unwrap();
        let r = self.run(&w, ctx, &sb, &mut rep);
        if std::env::var_os("GIXSIM_KEEP").is_none() {
            let _ = std::fs::remove_dir_all(&sb);
        }
        if let Err(e) = r {
            rep.harness_error = Some(e);
        }
        rep.n_decisions = rep.decisions.len() as u64;
        rep.sched_hash = Fnv::of(format!("{:?}", rep.decisions).as_bytes());
        rep.nontrivial = true;
        rep
    }
    fn shrink(&self, wv: &Value) -> Vec<Value> {
        let w: Workload = match serde_json::from_value(wv.clone()) {
            Ok(w) => w,
            Err(_) => return vec![],
        };
        let mut out = vec![];
        for i in (0..w.states.len()).rev() {
            if w.states.len() > 1 {
                let mut c = w.clone();
                c.states.remove(i);
                out.push(c);
            }
        }
        for f in [&|c: &mut Workload| c.read_plan = IoPlan::default(), &|c: &mut Workload| c.write_plan = IoPlan::default(), &|c: &mut Workload| c.depth = 0, &|c: &mut Workload| c.deepen = 0, &|c: &mut Workload| c.tags = 0, &|c: &mut Workload| c.refspecs = 0] as [&dyn Fn(&mut Workload); 6] {
            let mut c = w.clone();
            f(&mut c);
            out.push(c);
        }
        out.into_iter().map(|c| serde_json::to_value(c).unwrap()).filter(|v| v != wv).collect()
    }
    fn real_stub(&self) -> Value {
        json!({
            "real": ["gix Remote / Connection / prepare_fetch / receive (ref map, negotiation, pack receipt via gix-pack, ref updates via gix-ref transactions, shallow file)", "gix-protocol fetch, gix-negotiate", "git upload-pack 2.39.5 as the server process", "git fetch 2.39.5 as the twin client; git for-each-ref / fsck as observers"],
            "simulated": ["the byte transport between gitoxide and the server: seeded chunking, Interrupted, short writes; server output collected up to its next quiescent point"],
            "stub": [],
            "not_controlled": ["thread scheduling inside gitoxide during pack resolution: pack.threads=1 is configured instead (schedules of the indexer are C10's subject)"],
        })
    }
    fn rule(&self, _p: &str) -> String {
        "distinct (state sub-sequence, refspec set, tag mode, protocol version, depth, transport plan class)".into()
    }
    fn assumptions(&self, _p: &str) -> Vec<String> {
        vec![
            "the twin runs `git fetch` with the same refspecs, tag mode, protocol version and depth against the same server directory; its result is the expected reference state".into(),
            "FETCH_HEAD, reflogs and remote HEAD guessing are outside the comparison".into(),
            "only benign transport behaviour is injected here; destructive stream faults during pack receipt are decided under C10".into(),
        ]
    }
}

impl Fetch {
    fn run(&self, w: &Workload, ctx: &ExecCtx, sb: &Path, rep: &mut Report) -> Result<(), String> {
        let srv = sb.join("srv");
        let (cg, ct) = (sb.join("client-gix"), sb.join("client-git"));
        for c in [&cg, &ct] {
            if w.clone {
                break;
            }
            copy_tree(&ctx.worker_dir.join("client-template"), c)?;
            out(git(c).args(["remote", "add", "origin"]).arg(&srv))?;
            out(git(c).args(["config", "--unset-all", "remote.origin.fetch"]))?;
            for s in REFSPECS[w.refspecs % REFSPECS.len()] {
                out(git(c).args(["config", "--add", "remote.origin.fetch", s]))?;
            }
        }
        if w.clone {
            for c in [&cg, &ct] {
                let _ = std::fs::remove_dir_all(c);
            }
        }
        let shape = format!("{}refspecs={} tags={} v={} depth={} deepen={}", if w.clone { "clone " } else { "" }, w.refspecs, w.tags, w.version, w.depth, if w.depth > 0 && w.states.len() > 1 { w.deepen } else { 0 });
        let mut log = String::new();
        let mut diverged_legitimately = false;
        for (step, st) in w.states.iter().enumerate() {
            if diverged_legitimately {
                break;
            }
            copy_tree(&ctx.worker_dir.join(format!("state-{st}")), &srv)?;
            let depth = if step == 0 { w.depth } else { 0 };
            let deepen = if step == 1 && w.depth > 0 { w.deepen } else { 0 };
            if w.clone && step == 0 {
                let head_kind = match st {
                    7 => "detached",
                    8 => "unborn",
                    _ => "branch",
                };
                // the twin
                let mut tc = Command::new("git");
                tc.env("GIT_CONFIG_NOSYSTEM", "1").env("GIT_CONFIG_GLOBAL", "/dev/null").env_remove("GIT_PROTOCOL").args(["-c", &format!("protocol.version={}", w.version), "-c", "init.defaultBranch=main", "clone", "-q", "--no-checkout"]);
                if depth > 0 {
                    tc.arg(format!("--depth={depth}")).arg("--no-single-branch");
                }
                // a local path would be cloned by copying: go through the transport
                tc.arg(format!("file://{}", srv.display())).arg(&ct);
                let twin = tc.output().map_err(|e| e.to_string())?;
                if !twin.status.success() {
                    return Err(format!("git clone failed: {}", String::from_utf8_lossy(&twin.stderr)));
                }
                let (srv2, cg2, version) = (srv.clone(), cg.clone(), w.version);
                let ours = gixsim_rt::io::catch_panics(move || -> Result<(), String> {
                    let open = gix::open::Options::isolated().config_overrides([format!("protocol.version={version}"), "committer.name=client".into(), "committer.email=client@example.com".into(), "init.defaultBranch=main".into()]);
                    let mut prep = gix::clone::PrepareFetch::new(format!("file://{}", srv2.display()).as_str(), &cg2, gix::create::Kind::WithWorktree, gix::create::Options::default(), open).map_err(|e| format!("prepare clone: {}", chain(&e)))?;
                    if let Some(d) = std::num::NonZeroU32::new(depth) {
                        prep = prep.with_shallow(gix::remote::fetch::Shallow::DepthAtRemote(d));
                    }
                    let interrupt = std::sync::atomic::AtomicBool::new(false);
                    let (_repo, _out) = prep.fetch_only(gix_features::progress::Discard, &interrupt).map_err(|e| format!("clone fetch: {}", chain(&e)))?;
                    Ok(())
                });
                rep.ops += 1;
                match ours {
                    Err(p) => {
                        rep.violate(P, format!("fetch clone panic | {shape}"), format!("state {st}: {p:?}"));
                        break;
                    }
                    Ok(Err(e)) => {
                        rep.violate(P, format!("fetch clone failed-where-git-succeeds | {shape}"), format!("state {st}: {e}"));
                        break;
                    }
                    Ok(Ok(())) => {}
                }
                let fmt = "--format=%(refname) %(objectname) %(symref)";
                let describe = |c: &Path| -> Result<String, String> {
                    let mut d = out(git(c).args(["for-each-ref", fmt]))?;
                    d.push_str(&format!("HEAD -> {}\n", std::fs::read_to_string(c.join(".git/HEAD")).unwrap_or_default().trim()));
                    for k in ["remote.origin.url", "remote.origin.fetch", "branch.main.remote", "branch.main.merge", "branch.feature/x.remote", "branch.feature/x.merge"] {
                        let v = git(c).args(["config", "--get-all", k]).output().map(|o| String::from_utf8_lossy(&o.stdout).trim().replace('\n', ",")).unwrap_or_default();
                        d.push_str(&format!("{k} = {v}\n"));
                    }
                    let mut sh: Vec<String> = std::fs::read_to_string(c.join(".git/shallow")).unwrap_or_default().lines().map(|s| s.to_string()).collect();
                    sh.sort();
                    sh.dedup();
                    d.push_str(&format!("shallow {sh:?}\n"));
                    Ok(d)
                };
                let (a, b) = (describe(&ct)?, describe(&cg)?);
                if a != b {
                    let la: Vec<&str> = a.lines().filter(|l| !b.lines().any(|x| x == *l)).take(4).collect();
                    let lb: Vec<&str> = b.lines().filter(|l| !a.lines().any(|x| x == *l)).take(4).collect();
                    let what = la.first().or(lb.first()).map(|l| if l.starts_with("HEAD") { "head" } else if l.starts_with("refs/tags") { "tag" } else if l.starts_with("refs/") { "ref" } else if l.starts_with("shallow") { "shallow" } else { "config" }).unwrap_or("");
                    rep.violate(P, if head_kind == "branch" { format!("fetch clone differs-from-git-clone {what} | {shape}") } else { format!("fetch clone deviates head={head_kind} | {what} {shape}") }, format!("cloning state {st}: git clone has {la:?}; gitoxide has {lb:?}"));
                    break;
                }
                let fsck = git(&cg).args(["fsck", "--connectivity-only", "--no-dangling"]).output().map_err(|e| e.to_string())?;
                let fsck_text = format!("{}{}", String::from_utf8_lossy(&fsck.stdout), String::from_utf8_lossy(&fsck.stderr));
                if !fsck.status.success() || fsck_text.contains("missing") || fsck_text.contains("broken") {
                    rep.violate(P, if head_kind == "branch" { format!("fetch clone fsck-complains | {shape}") } else { format!("fetch clone deviates head={head_kind} | fsck {shape}") }, format!("after cloning state {st}: {}", fsck_text.lines().take(4).collect::<Vec<_>>().join("; ")));
                    break;
                }
                *rep.probes.entry("cloned-like-git".into()).or_insert(0) += 1;
                log.push_str(&format!("step0 state{st} clone | "));
                // both clones go on as ordinary clients; they need what the template would have given them
                for c in [&cg, &ct] {
                    for (k, v) in [("gc.auto", "0"), ("pack.threads", "1"), ("user.name", "client"), ("user.email", "client@example.com")] {
                        out(git(c).args(["config", k, v]))?;
                    }
                }
                continue;
            }
            // the twin first: what git does is the expectation
            let mut tf = git(&ct);
            tf.args(["-c", &format!("protocol.version={}", w.version), "fetch", "-q"]);
            match w.tags {
                1 => {
                    tf.arg("--no-tags");
                }
                2 => {
                    tf.arg("--tags");
                }
                _ => {}
            }
            if depth > 0 {
                tf.arg(format!("--depth={depth}"));
            }
            if deepen > 0 {
                tf.arg(format!("--deepen={deepen}"));
            }
            tf.arg("origin");
            let twin = tf.output().map_err(|e| e.to_string())?;
            let twin_ok = twin.status.success();
            let ours = gix_fetch(&cg, &srv, w, depth, deepen, ctx.seed ^ (step as u64) << 32, None, rep);
            rep.ops += 1;
            let ours_s = match &ours {
                Ok(s) => s.clone(),
                Err(e) if e.starts_with("HARNESS") => return Err(e.clone()),
                Err(e) => format!("ERR {e}"),
            };
            log.push_str(&format!("step{step} state{st} twin_ok={twin_ok} ours={} | ", ours_s.split(':').next().unwrap_or("")));
            if let Err(e) = &ours {
                if e.starts_with("PANIC") {
                    rep.violate(P, format!("fetch panic | {shape}"), format!("state {st}: {e}"));
                    break;
                }
            }
            if let Err(e) = &ours {
                if twin_ok || (w.version == 1 && deepen > 0) {
                    let what = if w.version == 1 && deepen > 0 { "relative-deepen-over-v1".to_string() } else { e.split(" <- ").last().unwrap_or("").split(' ').take(3).collect::<Vec<_>>().join("-") };
                    rep.violate(P, format!("fetch failed-where-git-succeeds {what} | {shape}"), format!("state {st} (states {:?}): {e}", w.states));
                    break;
                }
                *rep.probes.entry("both-clients-refused".into()).or_insert(0) += 1;
            }
            if !cg.join(".git/refs").is_dir() {
                rep.violate(P, format!("fetch refs-directory-removed | {shape}"), format!("after fetching state {st} (states {:?}; gitoxide: {ours_s}) the client's .git/refs directory is gone: git no longer accepts the repository", w.states));
                break;
            }
            // references
            let fmt = "--format=%(refname) %(objectname)";
            let refs_twin = out(git(&ct).args(["for-each-ref", fmt]))?;
            let refs_ours = out(git(&cg).args(["for-each-ref", fmt]))?;
            let (a, b): (Vec<&str>, Vec<&str>) = (refs_twin.lines().collect(), refs_ours.lines().collect());
            let mut only_twin: Vec<&&str> = a.iter().filter(|l| !b.contains(l)).collect();
            let mut only_ours: Vec<&&str> = b.iter().filter(|l| !a.contains(l)).collect();
            if !twin_ok {
                // git stops before following tags once a ref update was rejected (builtin/fetch.c: do_fetch leaves through
                // `cleanup` before backfill_tags). What it would have followed is not its final word on those tags: tags
                // gitoxide has in addition are accepted if the server has exactly them.
                let srv_refs = out(git(&srv).args(["for-each-ref", fmt]))?;
                let before = only_ours.len();
                only_ours.retain(|l| !(l.starts_with("refs/tags/") && srv_refs.lines().any(|s| s == **l)));
                if only_ours.len() != before {
                    *rep.probes.entry("tags-followed-where-git-stopped-after-a-rejection".into()).or_insert(0) += 1;
                    // the two clients now differ in a way the statement does not settle: the history ends after this step
                    diverged_legitimately = true;
                }
            }
            if !only_twin.is_empty() || !only_ours.is_empty() {
                only_twin.truncate(4);
                only_ours.truncate(4);
                let kind = if only_ours.is_empty() { "missing" } else if only_twin.is_empty() { "extra" } else { "different" };
                let which = only_twin.first().or(only_ours.first()).map(|l| l.split(' ').next().unwrap_or("")).map(|n| if n.starts_with("refs/tags/") { "tag" } else if n.starts_with("refs/remotes/") { "tracking" } else { "other" }).unwrap_or("");
                rep.violate(P, format!("fetch refs-differ-from-git-fetch {kind} {which} step={} | {shape}", step.min(1)), format!("after fetching state {st} (states {:?}): git fetch (ok={twin_ok}, {}) has {only_twin:?} which gitoxide lacks; gitoxide ({ours_s}) has {only_ours:?} which git lacks", w.states, String::from_utf8_lossy(&twin.stderr).trim()));
                break;
            }
            // objects
            let fsck = git(&cg).args(["fsck", "--connectivity-only", "--no-dangling"]).output().map_err(|e| e.to_string())?;
            let fsck_text = format!("{}{}", String::from_utf8_lossy(&fsck.stdout), String::from_utf8_lossy(&fsck.stderr));
            if !fsck.status.success() || fsck_text.contains("missing") || fsck_text.contains("broken") {
                rep.violate(P, format!("fetch fsck-complains | {shape}"), format!("after fetching state {st}: {}", fsck_text.lines().take(4).collect::<Vec<_>>().join("; ")));
                break;
            }
            // shallow boundary
            let sh = |c: &Path| -> Vec<String> {
                let mut v: Vec<String> = std::fs::read_to_string(c.join(".git/shallow")).unwrap_or_default().lines().map(|s| s.to_string()).collect();
                v.sort();
                v
            };
            let dedup = |mut v: Vec<String>| {
                v.dedup();
                v
            };
            if dedup(sh(&cg)).len() != sh(&cg).len() {
                // the boundary is a set; gitoxide writes a commit once per ref that stops at it (observation)
                *rep.probes.entry("shallow-file-lists-a-commit-twice".into()).or_insert(0) += 1;
            }
            if dedup(sh(&ct)) != dedup(sh(&cg)) {
                rep.violate(P, format!("fetch shallow-boundary-differs | {shape}"), format!("after fetching state {st}: git {:?}, gitoxide {:?}", sh(&ct), sh(&cg)));
                break;
            }
            *rep.probes.entry(format!("fetched:{}", ours_s.split(':').next().unwrap_or(""))).or_insert(0) += 1;
            if !twin_ok {
                *rep.probes.entry("git-fetch-reported-rejections".into()).or_insert(0) += 1;
            }
        }
        let st = Fnv::of(format!("{shape} {:?} {log}", w.states).as_bytes());
        rep.states.push(st);
        rep.log_hash = Fnv::of(log.as_bytes());
        rep.summary = format!("{shape} states {:?}: {log}", w.states);
        Ok(())
    }
}
