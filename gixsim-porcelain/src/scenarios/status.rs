//! C49 (clock part) — status agrees with the truth under every legal clock (DESIGN §4).
//!
//! A small repository goes through a seeded history of edits (same size / other size), touches, mode flips,
//! deletions, re-creations, type changes, index updates by git and status runs by gitoxide (optionally writing
//! refreshed stat data back). Time is simulated: every operation happens at the simulator's `now`, which advances by
//! seeded steps of 0, 1 ns, just under a second, 1 s, 2 s; a file written at `now` gets `mtime = floor(now, g)` with the
//! file system's timestamp granularity g (1 ns or 1 s), the index file gets the same when git or gitoxide writes it.
//! ctime cannot be set from user space, so both tools run with `core.trustctime=false`.
//!
//! A clock is *legal* if whatever is written after the index was written carries a time stamp that is not older
//! than the index's. Under every legal clock the truth is decidable from content alone, and that is the oracle:
//! a tracked path is reported iff its bytes, its executable bit, its type or its existence differ from what the
//! index records — never because of, or in spite of, its time stamps. `git status --porcelain` must say the same
//! (a disagreement between git and the model is a harness error, not a finding).
use gixsim_rt::driver::{ExecCtx, Report, Scenario, Tier};
use gixsim_rt::prng::{Fnv, Rng, STREAM_WORKLOAD};
use serde::{Deserialize, Serialize};
use serde_json::{json, Value};
use std::collections::BTreeMap;
use std::path::Path;
use std::process::Command;

pub struct StatusClock;
const P: &str = "C49";
const NFILES: usize = 5;

#[derive(Clone, Debug, Serialize, Deserialize)]
pub enum Op {
    Edit { file: usize, same_size: bool },
    Touch { file: usize },
    Chmod { file: usize },
    Delete { file: usize },
    TypeChange { file: usize },
    /// `rm f && mkdir f` (optionally with a file inside): the tracked path is gone, what is there now is untracked
    ReplaceByDir { file: usize, populated: bool },
    /// `git add -A` (all) or `git update-index --refresh`
    GitIndex { add: bool },
    Status { write_back: bool },
}
#[derive(Clone, Debug, Serialize, Deserialize)]
pub struct Workload {
    /// (operation, nanoseconds the clock moves *after* it; negative = the clock is stepped back, e.g. by NTP)
    pub ops: Vec<(Op, i64)>,
    /// time stamp granularity of the simulated file system in ns (1 or 1_000_000_000)
    pub granularity: u64,
    pub use_nsec: bool,
    pub check_stat_minimal: bool,
    pub thread_limit: usize,
}

fn git(dir: &Path) -> Command {
    let mut c = Command::new("git");
    c.arg("-C").arg(dir).env("LC_ALL", "C").env("GIT_CONFIG_NOSYSTEM", "1").env("GIT_CONFIG_GLOBAL", "/dev/null").env_remove("GIT_DIR").env("GIT_AUTHOR_NAME", "a").env("GIT_AUTHOR_EMAIL", "a@e").env("GIT_COMMITTER_NAME", "c").env("GIT_COMMITTER_EMAIL", "c@e");
    c
}
fn run(c: &mut Command) -> Result<String, String> {
    let o = c.output().map_err(|e| e.to_string())?;
    if !o.status.success() {
        return Err(format!("{:?}: {} {}", c, String::from_utf8_lossy(&o.stdout), String::from_utf8_lossy(&o.stderr)));
    }
    Ok(String::from_utf8_lossy(&o.stdout).into_owned())
}
fn set_mtime(p: &Path, ns: u64, follow: bool) {
    let ts = libc::timespec { tv_sec: (ns / 1_000_000_000) as i64, tv_nsec: (ns % 1_000_000_000) as i64 };
    let c = std::ffi::CString::new(p.to_string_lossy().as_bytes()).unwrap();
    unsafe { libc::utimensat(libc::AT_FDCWD, c.as_ptr(), [ts, ts].as_ptr(), if follow { 0 } else { libc::AT_SYMLINK_NOFOLLOW }) };
}

/// What the model knows about one path: content (None = absent), executable, symlink
#[derive(Clone, Debug, PartialEq)]
struct FileState {
    content: Option<Vec<u8>>,
    exec: bool,
    link: bool,
}
fn remove_path(p: &Path) {
    match std::fs::symlink_metadata(p) {
        Ok(m) if m.is_dir() => {
            let _ = std::fs::remove_dir_all(p);
        }
        Ok(_) => {
            let _ = std::fs::remove_file(p);
        }
        Err(_) => {}
    }
}

fn generate(seed: u64) -> Workload {
    let mut r = Rng::stream(seed, STREAM_WORKLOAD);
    let n = 3 + r.usize_below(10);
    let mut ops = vec![];
    for _ in 0..n {
        let file = r.usize_below(NFILES);
        let op = match r.below(20) {
            0..=5 => Op::Edit { file, same_size: r.chance(650) },
            6 | 7 => Op::Touch { file },
            8 => Op::Chmod { file },
            9 => Op::Delete { file },
            10 => {
                if r.chance(500) {
                    Op::TypeChange { file }
                } else {
                    Op::ReplaceByDir { file, populated: r.chance(500) }
                }
            }
            11..=14 => Op::GitIndex { add: r.chance(700) },
            _ => Op::Status { write_back: r.chance(500) },
        };
        let delta = *r.pick(&[0i64, 0, 0, 1, 999_999_999, 1_000_000_000, 1_000_000_000, 2_000_000_000, 5_000_000_000, -3_000_000_000, -1_000_000_000]);
        ops.push((op, delta));
    }
    ops.push((Op::Status { write_back: false }, 0));
    Workload { ops, granularity: *r.pick(&[1u64, 1_000_000_000, 1_000_000_000]), use_nsec: r.chance(400), check_stat_minimal: r.chance(300), thread_limit: *r.pick(&[1usize, 1, 4]) }
}

impl Scenario for StatusClock {
    fn name(&self) -> &'static str {
        "status_clock"
    }
    fn properties(&self) -> &'static [&'static str] {
        &[P]
    }
    fn isolated(&self) -> bool {
        false
    }
    fn jobs_hint(&self) -> usize {
        8
    }
    fn runs(&self, tier: Tier, _p: &str) -> u64 {
        match tier {
            Tier::Quick => 600,
            Tier::Thorough => 60_000,
        }
    }
    fn generate(&self, seed: u64, _t: Tier, _p: &str) -> Value {
        serde_json::to_value(generate(seed)).unwrap()
    }
    fn execute(&self, wv: &Value, ctx: &ExecCtx) -> Report {
        let mut rep = Report::default();
        let w: Workload = match serde_json::from_value(wv.clone()) {
            Ok(w) => w,
            Err(e) => {
                rep.harness_error = Some(format!("bad workload: {e}"));
                return rep;
            }
        };
        let sb = gixsim_rt::driver::sandbox_base().join(format!("status-{}-{:x}", std::process::id(), ctx.seed));
        let _ = std::fs::remove_dir_all(&sb);
        std::fs::create_dir_all(&sb).unwrap();
        let r = self.run(&w, &sb, &mut rep);
        if std::env::var_os("GIXSIM_KEEP").is_none() {
            let _ = std::fs::remove_dir_all(&sb);
        }
        if let Err(e) = r {
            rep.harness_error = Some(e);
        }
        rep.nontrivial = true;
        rep
    }
    fn shrink(&self, wv: &Value) -> Vec<Value> {
        let w: Workload = match serde_json::from_value(wv.clone()) {
            Ok(w) => w,
            Err(_) => return vec![],
        };
        let mut out = vec![];
        for i in (0..w.ops.len()).rev() {
            if w.ops.len() > 1 {
                let mut c = w.clone();
                c.ops.remove(i);
                out.push(c);
            }
        }
        for i in 0..w.ops.len() {
            if w.ops[i].1 != 0 {
                let mut c = w.clone();
                c.ops[i].1 = 0;
                out.push(c);
            }
            if w.ops[i].1 < 0 {
                let mut c = w.clone();
                c.ops[i].1 = 1_000_000_000;
                out.push(c);
            }
        }
        if w.thread_limit != 1 {
            let mut c = w.clone();
            c.thread_limit = 1;
            out.push(c);
        }
        out.into_iter().map(|c| serde_json::to_value(c).unwrap()).collect()
    }
    fn real_stub(&self) -> Value {
        json!({
            "real": ["gix Repository::status -> index_worktree iterator (gix-status index_as_worktree: stat comparison, racy-git handling, content fallback through gix-filter/gix-object hashing)", "gix-index stat::{matches,is_racy}, Outcome::write_changes", "git add / update-index / status 2.39.5 as index writer and second opinion", "kernel tmpfs"],
            "simulated": ["the clock: every file and index time stamp is set by the simulator (`now` advances by seeded steps of 0 ns .. 5 s and is sometimes stepped back by 1-3 s; granularity 1 ns or 1 s)"],
            "stub": [],
            "not_controlled": ["ctime (set by the kernel): both tools run with core.trustctime=false", "thread scheduling of the status producer"],
        })
    }
    fn rule(&self, _p: &str) -> String {
        "distinct (operation-kind sequence with clock steps classed as same-instant / below-granularity / later, options)".into()
    }
    fn assumptions(&self, _p: &str) -> Vec<String> {
        vec![
            "legal clocks only: a write that happens after an index write never carries an older time stamp than that index; operations are atomic with respect to the clock (no edit between git's stat of a file and its index write)".into(),
            "the untracked/ignored half of C49 is a function of the input alone and is not claimed; only tracked paths are judged".into(),
            "core.trustctime=false: ctime cannot be simulated".into(),
        ]
    }
}

impl StatusClock {
    fn run(&self, w: &Workload, sb: &Path, rep: &mut Report) -> Result<(), String> {
        let repo = sb.join("repo");
        std::fs::create_dir_all(&repo).unwrap();
        run(git(sb).args(["init", "-q", "-b", "main", "repo"]))?;
        for (k, v) in [("core.trustctime", "false"), ("core.filemode", "true"), ("core.autocrlf", "false"), ("gc.auto", "0"), ("core.checkStat", if w.check_stat_minimal { "minimal" } else { "default" }), ("gitoxide.core.useNsec", if w.use_nsec { "true" } else { "false" }), ("index.threads", "1")] {
            run(git(&repo).args(["config", k, v]))?;
        }
        let g = w.granularity.max(1);
        let floor = |t: u64| t - t % g;
        let mut now: u64 = 1_000_000_000 * 1_000_000_000 + 500_000_000; // 2001-09-09 01:46:40.5
        let name = |i: usize| format!("f{i}");
        let mut wt: Vec<FileState> = vec![];
        let mut counter = 0u64;
        for i in 0..NFILES {
            let c = format!("initial content of file {i} {:04}\n", i).into_bytes();
            std::fs::write(repo.join(name(i)), &c).unwrap();
            if i == 1 {
                use std::os::unix::fs::PermissionsExt;
                std::fs::set_permissions(repo.join(name(i)), std::fs::Permissions::from_mode(0o755)).unwrap();
            }
            set_mtime(&repo.join(name(i)), floor(now), true);
            wt.push(FileState { content: Some(c), exec: i == 1, link: false });
        }
        run(git(&repo).args(["add", "-A"]))?;
        run(git(&repo).args(["commit", "-q", "-m", "base"]))?;
        set_mtime(&repo.join(".git/index"), floor(now), true);
        let mut index: Vec<FileState> = wt.clone();
        // time stamps as the simulation set them: per file, and of the index file
        let mut fm: Vec<u64> = vec![floor(now); NFILES];
        let mut im: u64 = floor(now);
        let mut is_dir = vec![false; NFILES];
        let mut gix_wrote_index = false;
        let shape = format!("g={} nsec={} checkstat={} threads={}", if g == 1 { "1ns" } else { "1s" }, w.use_nsec, if w.check_stat_minimal { "minimal" } else { "default" }, if w.thread_limit == 1 { "1" } else { "n" });
        let mut log = String::new();
        let mut last_index_write = now;
        for (i, (op, delta)) in w.ops.iter().enumerate() {
            let step_class = |d: i64| if d < 0 { "stepped-back" } else if d == 0 { "same-instant" } else if (d as u64) < g { "below-granularity" } else { "later" };
            match op {
                Op::Edit { file, same_size } => {
                    let p = repo.join(name(*file));
                    if let Some(old) = wt[*file].content.clone().filter(|_| !wt[*file].link) {
                        counter += 1;
                        let new = if *same_size && old.len() >= 6 {
                            // same length, other bytes
                            let mut n = old.clone();
                            let tag = format!("{:04}", counter % 10_000);
                            let at = n.len() - 5;
                            n[at..at + 4].copy_from_slice(tag.as_bytes());
                            if n == old {
                                n[at] = b'#';
                            }
                            n
                        } else {
                            let mut n = old.clone();
                            n.extend_from_slice(format!("more {counter}\n").as_bytes());
                            n
                        };
                        std::fs::write(&p, &new).map_err(|e| e.to_string())?;
                        set_mtime(&p, floor(now), true);
                        fm[*file] = floor(now);
                        wt[*file].content = Some(new);
                        log.push_str(&format!("edit{} ", if *same_size { "=" } else { "+" }));
                    }
                }
                Op::Touch { file } => {
                    if wt[*file].content.is_some() {
                        set_mtime(&repo.join(name(*file)), floor(now), false);
                        fm[*file] = floor(now);
                        log.push_str("touch ");
                    }
                }
                Op::Chmod { file } => {
                    if wt[*file].content.is_some() && !wt[*file].link {
                        use std::os::unix::fs::PermissionsExt;
                        let x = !wt[*file].exec;
                        std::fs::set_permissions(repo.join(name(*file)), std::fs::Permissions::from_mode(if x { 0o755 } else { 0o644 })).map_err(|e| e.to_string())?;
                        wt[*file].exec = x;
                        log.push_str("chmod ");
                    }
                }
                Op::Delete { file } => {
                    if wt[*file].content.is_some() {
                        std::fs::remove_file(repo.join(name(*file))).map_err(|e| e.to_string())?;
                        wt[*file] = FileState { content: None, exec: false, link: false };
                        log.push_str("delete ");
                    } else {
                        counter += 1;
                        let c = format!("re-created {counter}\n").into_bytes();
                        remove_path(&repo.join(name(*file)));
                        is_dir[*file] = false;
                        std::fs::write(repo.join(name(*file)), &c).map_err(|e| e.to_string())?;
                        set_mtime(&repo.join(name(*file)), floor(now), true);
                        fm[*file] = floor(now);
                        wt[*file] = FileState { content: Some(c), exec: false, link: false };
                        log.push_str("recreate ");
                    }
                }
                Op::TypeChange { file } => {
                    if wt[*file].content.is_some() && !wt[*file].link {
                        let p = repo.join(name(*file));
                        std::fs::remove_file(&p).map_err(|e| e.to_string())?;
                        counter += 1;
                        let target = format!("target-{counter}");
                        std::os::unix::fs::symlink(&target, &p).map_err(|e| e.to_string())?;
                        set_mtime(&p, floor(now), false);
                        fm[*file] = floor(now);
                        wt[*file] = FileState { content: Some(target.into_bytes()), exec: false, link: true };
                        log.push_str("typechange ");
                    }
                }
                Op::ReplaceByDir { file, populated } => {
                    if wt[*file].content.is_some() {
                        let p = repo.join(name(*file));
                        remove_path(&p);
                        std::fs::create_dir(&p).map_err(|e| e.to_string())?;
                        if *populated {
                            std::fs::write(p.join("inner"), "inner\n").map_err(|e| e.to_string())?;
                            set_mtime(&p.join("inner"), floor(now), true);
                        }
                        set_mtime(&p, floor(now), true);
                        wt[*file] = FileState { content: None, exec: false, link: false };
                        is_dir[*file] = true;
                        log.push_str(if *populated { "dir+ " } else { "dir " });
                    }
                }
                Op::GitIndex { add } => {
                    if *add {
                        run(git(&repo).args(["add", "-A"]))?;
                    } else {
                        let _ = git(&repo).args(["update-index", "-q", "--refresh"]).output();
                    }
                    // What is staged now is read from the index itself: after the clock was stepped back `git add` can be
                    // as blind to a same-size change as `git status` (and then the old blob stays staged).
                    let listed = run(git(&repo).args(["ls-files", "-s"]))?;
                    let blob = |c: &[u8]| gix::objs::compute_hash(gix::hash::Kind::Sha1, gix::objs::Kind::Blob, c).to_string();
                    for f in 0..NFILES {
                        let entry = listed.lines().find_map(|l| {
                            let (meta, path) = l.split_once('\t')?;
                            (path == name(f)).then(|| {
                                let mut it = meta.split(' ');
                                (it.next().unwrap_or("").to_string(), it.next().unwrap_or("").to_string())
                            })
                        });
                        index[f] = match entry {
                            None => FileState { content: None, exec: false, link: false },
                            Some((mode, oid)) => {
                                let (exec, link) = (mode == "100755", mode == "120000");
                                let from = |st: &FileState| st.content.as_ref().filter(|c| st.link == link && blob(c) == oid).cloned();
                                match from(&wt[f]).or_else(|| from(&index[f])) {
                                    Some(c) => FileState { content: Some(c), exec, link },
                                    None => return Err(format!("after [{log}] the index holds {mode} {oid} for {}, which is neither the worktree's nor the previously staged content", name(f))),
                                }
                            }
                        };
                    }
                    set_mtime(&repo.join(".git/index"), floor(now), true);
                    im = floor(now);
                    last_index_write = now;
                    log.push_str(if *add { "git-add " } else { "git-refresh " });
                }
                Op::Status { write_back } => {
                    // the model's verdict
                    let mut expect: BTreeMap<String, &'static str> = BTreeMap::new();
                    // After the clock was stepped back a change can carry a time stamp older than the index: if size and
                    // type are also the same, nothing but reading every file on every status could find it (git does not,
                    // by design). Such paths are not judged.
                    let mut undecidable: Vec<String> = vec![];
                    for f in 0..NFILES {
                        let (a, b) = (&index[f], &wt[f]);
                        if let (Some(x), Some(y)) = (&a.content, &b.content) {
                            if x != y && x.len() == y.len() && a.link == b.link && a.exec == b.exec && fm[f] < im {
                                undecidable.push(name(f));
                                continue;
                            }
                        }
                        let v = match (&a.content, &b.content) {
                            (None, _) => continue, // not tracked (deleted and staged): untracked if present — not judged
                            (Some(_), None) => "removed",
                            (Some(x), Some(y)) => {
                                if a.link != b.link {
                                    "typechange"
                                } else if x != y || a.exec != b.exec {
                                    "modified"
                                } else {
                                    continue;
                                }
                            }
                        };
                        expect.insert(name(f), v);
                    }
                    // git's verdict (second opinion on the model)
                    // (without optional locks: git status must not refresh — smudge — the index under gitoxide's feet)
                    let porcelain = run(git(&repo).env("GIT_OPTIONAL_LOCKS", "0").args(["status", "--porcelain", "--untracked-files=no"]))?;
                    // git status may refresh the index file: keep its time stamp where the simulation put it
                    let mut gitv: BTreeMap<String, &'static str> = BTreeMap::new();
                    for l in porcelain.lines() {
                        if l.len() < 4 {
                            continue;
                        }
                        let y = l.as_bytes()[1];
                        let path = l[3..].to_string();
                        match y {
                            b'M' => {
                                gitv.insert(path, "modified");
                            }
                            b'D' => {
                                gitv.insert(path, "removed");
                            }
                            b'T' => {
                                gitv.insert(path, "typechange");
                            }
                            _ => {}
                        }
                    }
                    set_mtime(&repo.join(".git/index"), im, true);
                    gitv.retain(|k, _| !undecidable.contains(k) && k.len() == 2);
                    // git built without nanosecond support cannot be the judge once gitoxide, comparing nanoseconds, has
                    // rewritten the index (it only smudges what it considers racy itself)
                    let git_is_judge = !(w.use_nsec && gix_wrote_index);
                    if git_is_judge && gitv != expect {
                        return Err(format!("model and git status disagree after [{log}]: model {expect:?}, git {gitv:?} ({shape})"));
                    }
                    // gitoxide's verdict
                    let (repo2, tl, wb) = (repo.clone(), w.thread_limit, *write_back);
                    let res = gixsim_rt::io::catch_panics(move || -> Result<(BTreeMap<String, &'static str>, u64, bool), String> {
                        let r = gix::open_opts(&repo2, gix::open::Options::isolated()).map_err(|e| format!("open: {e}"))?;
                        let platform = r
                            .status(gix_features::progress::Discard)
                            .map_err(|e| format!("status: {e}"))?
                            .untracked_files(gix::status::UntrackedFiles::None)
                            .index_worktree_rewrites(None)
                            .index_worktree_options_mut(|o| o.thread_limit = Some(tl));
                        let mut iter = platform.into_index_worktree_iter(Vec::new()).map_err(|e| format!("iter: {e}"))?;
                        let mut got = BTreeMap::new();
                        let mut needs_update = 0u64;
                        for item in iter.by_ref() {
                            let item = item.map_err(|e| format!("item: {e}"))?;
                            use gix::status::index_worktree::iter::Summary;
                            match item.summary() {
                                Some(Summary::Removed) => {
                                    got.insert(item.rela_path().to_string(), "removed");
                                }
                                Some(Summary::TypeChange) => {
                                    got.insert(item.rela_path().to_string(), "typechange");
                                }
                                Some(Summary::Modified) => {
                                    got.insert(item.rela_path().to_string(), "modified");
                                }
                                Some(_) => {
                                    got.insert(item.rela_path().to_string(), "other");
                                }
                                None => needs_update += 1,
                            }
                        }
                        let mut wrote = false;
                        if wb {
                            if let Some(mut out) = iter.into_outcome() {
                                if let Some(r) = out.write_changes() {
                                    r.map_err(|e| format!("write_changes: {e}"))?;
                                    wrote = true;
                                }
                            }
                        }
                        Ok((got, needs_update, wrote))
                    });
                    rep.ops += 1;
                    let since = now as i64 - last_index_write as i64;
                    let cls = step_class(since);
                    match res {
                        Err(p) => {
                            rep.violate(P, format!("status panic | {shape}"), format!("after [{log}]: {p:?}"));
                            break;
                        }
                        Ok(Err(e)) => {
                            rep.violate(P, format!("status failed | {shape}"), format!("after [{log}]: {e}"));
                            break;
                        }
                        Ok(Ok((mut got, needs_update, wrote))) => {
                            got.retain(|k, _| !undecidable.contains(k) && k.len() == 2);
                            if !undecidable.is_empty() {
                                *rep.probes.entry("path-not-judged-after-clock-stepped-back".into()).or_insert(0) += 1;
                            }
                            if got != expect {
                                let missed: Vec<(&String, &&str)> = expect.iter().filter(|(k, v)| got.get(*k) != Some(v)).collect();
                                let extra: Vec<(&String, &&str)> = got.iter().filter(|(k, v)| expect.get(*k) != Some(v)).collect();
                                let kind = if let Some((_, v)) = missed.first() { format!("missed-{v}") } else { format!("false-{}", extra.first().map(|x| *x.1).unwrap_or("")) };
                                rep.violate(P, format!("status differs-from-truth {kind} index-age={cls} | {shape}"), format!("after [{log}] (step {i}): content says {expect:?}, gitoxide reports {got:?}; git agrees with the content; index written {since} ns before this status"));
                                break;
                            }
                            *rep.probes.entry(format!("status-ok index-age={cls}")).or_insert(0) += 1;
                            if needs_update > 0 {
                                *rep.probes.entry("entries-needing-stat-update".into()).or_insert(0) += 1;
                            }
                            if wrote {
                                *rep.probes.entry("index-written-back-by-gitoxide".into()).or_insert(0) += 1;
                                set_mtime(&repo.join(".git/index"), floor(now), true);
                                im = floor(now);
                                last_index_write = now;
                                gix_wrote_index = true;
                            }
                            if !expect.is_empty() && cls != "later" {
                                *rep.probes.entry("change-detected-inside-the-racy-window".into()).or_insert(0) += 1;
                            }
                        }
                    }
                    log.push_str(if *write_back { "status+write " } else { "status " });
                }
            }
            now = (now as i64 + delta) as u64;
            log.push_str(match step_class(*delta) {
                "same-instant" => "",
                "below-granularity" => "~ ",
                _ => "| ",
            });
        }
        let st = Fnv::of(format!("{shape} {log}").as_bytes());
        rep.states.push(st);
        rep.log_hash = st;
        rep.sched_hash = st;
        rep.summary = format!("{shape}: {log}");
        Ok(())
    }
}
