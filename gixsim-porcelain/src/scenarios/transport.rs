//! C30 — ref advertisements are understood exactly (DESIGN §4).
//!
//! A real `git upload-pack` serves one of a pool of repositories made by git (branches, nested and annotated tags,
//! symbolic refs and chains, detached and unborn HEAD, empty, packed, many refs). The client is gitoxide's
//! `git::Connection` + `gix_protocol::handshake` (+ `ls_refs` under v2) over the simulated transport of `peer.rs`:
//! seeded chunking, `Interrupted`, short writes, and a connection drop after byte k of the server's stream.
//!
//! Oracle: without a drop the reported ref set equals what `git for-each-ref` / `git symbolic-ref` / `rev-parse ^{}`
//! said when the fixture was made, mapped through what each protocol version can express. With a drop: an error, or
//! still exactly that set (the drop came after the last needed byte) — never another set.
use crate::peer::{Peer, PeerRead, PeerWrite};
use gixsim_rt::driver::{ExecCtx, Report, Scenario, Tier};
use gixsim_rt::io::{Choices, IoPlan};
use gixsim_rt::prng::{Fnv, Rng, STREAM_FAULT, STREAM_WORKLOAD};
use gix_protocol::handshake::Ref;
use gix_transport::client::git::ConnectMode;
use serde::{Deserialize, Serialize};
use serde_json::{json, Value};
use std::collections::BTreeSet;
use std::path::Path;

pub struct Transport;
const P: &str = "C30";
pub const N_FIX: usize = 14;

#[derive(Clone, Debug, Serialize, Deserialize)]
pub struct Workload {
    pub fixture: usize,
    pub version: u8,
    /// v2 only: `ref-prefix` arguments
    pub prefixes: Vec<String>,
    pub read_plan: IoPlan,
    pub write_plan: IoPlan,
}

pub const FIXTURE_SH: &str = r#"
set -eu
dir="$1"; cd "$dir"
[ -f done-c30v3 ] && exit 0
export GIT_AUTHOR_DATE="2000-01-01 00:00:00 +0000" GIT_COMMITTER_DATE="2000-01-01 00:00:00 +0000"
export GIT_AUTHOR_NAME=a GIT_AUTHOR_EMAIL=a@e GIT_COMMITTER_NAME=c GIT_COMMITTER_EMAIL=c@e
export GIT_CONFIG_NOSYSTEM=1 GIT_CONFIG_GLOBAL=/dev/null HOME="$dir"
mk() { rm -rf "srv-$1"; git init -q -b main "srv-$1"; cd "srv-$1"; git config gc.auto 0; }
commit() { echo "$1" > "f-$1"; git add "f-$1"; git commit -qm "$1"; }
truth() {
  {
    if oid=$(git rev-parse -q --verify HEAD 2>/dev/null); then peeled=$(git rev-parse "HEAD^{}"); else oid=-; peeled=-; fi
    sym=$(git symbolic-ref -q HEAD || echo -)
    printf 'HEAD\t%s\t%s\t%s\t-\n' "$oid" "$peeled" "$sym"
    git for-each-ref --format='%(refname)%1f%(objectname)%1f%(*objectname)%1f%(symref)%1f%(objecttype)%1f%(*objecttype)' 2>/dev/null | while IFS="$(printf '\037')" read -r r oid peeled sym ty pty; do
      [ -n "$peeled" ] || peeled=$oid
      [ -n "$sym" ] || sym=-
      # for-each-ref peels one level only: nested tags are peeled all the way by rev-parse
      if [ "$pty" = tag ]; then peeled=$(git rev-parse "$r^{}"); fi
      printf '%s\t%s\t%s\t%s\t%s\n' "$r" "$oid" "$peeled" "$sym" "$ty"
    done
  } > "../truth-$1.tsv"
  cd ..
}
# 0: empty repository, unborn HEAD
mk 0; truth 0
# 1: one commit
mk 1; commit a; truth 1
# 2: branches and lightweight tags
mk 2; commit a; git branch dev; commit b; git branch feature/x; git tag light; git checkout -q dev; commit c; git tag light2; git checkout -q main; truth 2
# 3: annotated and nested tags, tag of a tree and of a blob
mk 3; commit a; git tag -a -m v1 v1; commit b; git tag -a -m v2 v2; git tag -a -m nested nested v1; git tag -a -m nn nested2 nested
git tag -a -m tree treetag "HEAD^{tree}"; git tag -a -m blob blobtag "$(git rev-parse HEAD:f-a)"; git tag lighttotag "$(git rev-parse v1)"; truth 3
# 4: detached HEAD
mk 4; commit a; commit b; git branch other; git checkout -q --detach HEAD~1; truth 4
# 5: HEAD on another branch, symbolic branch, remote HEAD
mk 5; commit a; git branch trunk; git checkout -q trunk; commit b; git symbolic-ref refs/heads/alias refs/heads/main
git update-ref refs/remotes/origin/main "$(git rev-parse main)"; git symbolic-ref refs/remotes/origin/HEAD refs/remotes/origin/main; truth 5
# 6: unborn HEAD while other branches exist
mk 6; commit a; git branch keep; git symbolic-ref HEAD refs/heads/nope; truth 6
# 7: many refs, packed
mk 7; commit a; for i in $(seq 1 150); do echo "update refs/heads/b$i $(git rev-parse HEAD)"; echo "update refs/tags/t$i $(git rev-parse HEAD)"; done | git update-ref --stdin
for i in 1 2 3 4 5; do git tag -a -m "a$i" "ann$i"; done; git pack-refs --all; commit b; git tag -a -m late late; truth 7
# 8: symbolic ref to an annotated tag, dangling symbolic ref
mk 8; commit a; git tag -a -m v1 v1; git symbolic-ref refs/tags/latest refs/tags/v1; git symbolic-ref refs/heads/dangling refs/heads/missing; truth 8
# 9: unusual names and namespaces
mk 9; commit a; git branch 'feature/a-b.c'; git branch 'ünï'; git update-ref refs/notes/commits "$(git rev-parse HEAD)"; git update-ref refs/custom/x "$(git rev-parse HEAD)"
git update-ref 'refs/heads/with space'"'"'q' "$(git rev-parse HEAD)" 2>/dev/null || true; git update-ref refs/pull/1/head "$(git rev-parse HEAD)"; truth 9
# 10: detached HEAD, packed refs with loose overrides
mk 10; commit a; git branch one; git tag -a -m t t; git pack-refs --all; commit b; git update-ref refs/heads/one "$(git rev-parse HEAD)"; git checkout -q --detach; truth 10
# 11: chain of symbolic refs, HEAD at the end of it
mk 11; commit a; git symbolic-ref refs/heads/b refs/heads/main; git symbolic-ref refs/heads/a refs/heads/b; git symbolic-ref HEAD refs/heads/a; truth 11
# 12: HEAD symbolic to a tag ref (annotated)
mk 12; commit a; git tag -a -m v v; git symbolic-ref HEAD refs/tags/v; truth 12
# 13: hidden refs: what the server does not advertise is not there for the client
mk 13; commit a; git branch visible; git update-ref refs/custom/secret "$(git rev-parse HEAD)"; git update-ref refs/pull/1/head "$(git rev-parse HEAD)"; git tag -a -m hidden hiddentag
git config uploadpack.hideRefs refs/custom; git config --add uploadpack.hideRefs refs/pull; git config --add transfer.hideRefs refs/tags/hiddentag
truth 13
grep -v -e '^refs/custom/' -e '^refs/pull/' -e '^refs/tags/hiddentag' truth-13.tsv > truth-13.tmp; mv truth-13.tmp truth-13.tsv
# (a GIT_NAMESPACE fixture was tried and dropped: git 2.39's ls-refs lists the namespaced HEAD twice and prints
# `symref-target:(null)` for a symbolic ref that leaves the namespace — server defects, not gitoxide's)
touch done-c30v3
"#;

/// (name, kind, target, tag, object) with kind in direct|peeled|symbolic|unborn
type Norm = (String, &'static str, String, String, String);

fn chain(e: &dyn std::error::Error) -> String {
    let mut s = e.to_string();
    let mut cur = e.source();
    while let Some(c) = cur {
        s.push_str(" <- ");
        s.push_str(&c.to_string());
        cur = c.source();
    }
    s
}

fn norm(r: &Ref) -> Norm {
    match r {
        Ref::Direct { full_ref_name, object } => (full_ref_name.to_string(), "direct", String::new(), String::new(), object.to_string()),
        Ref::Peeled { full_ref_name, tag, object } => (full_ref_name.to_string(), "peeled", String::new(), tag.to_string(), object.to_string()),
        Ref::Symbolic { full_ref_name, target, tag, object } => (full_ref_name.to_string(), "symbolic", target.to_string(), tag.map(|t| t.to_string()).unwrap_or_default(), object.to_string()),
        Ref::Unborn { full_ref_name, target } => (full_ref_name.to_string(), "unborn", target.to_string(), String::new(), String::new()),
    }
}

struct Truth {
    name: String,
    oid: Option<String>,
    peeled: Option<String>,
    sym: Option<String>,
    ty: String,
}
fn load_truth(dir: &Path, i: usize) -> Result<Vec<Truth>, String> {
    let t = std::fs::read_to_string(dir.join(format!("truth-{i}.tsv"))).map_err(|e| e.to_string())?;
    let opt = |s: &str| if s == "-" { None } else { Some(s.to_string()) };
    Ok(t.lines()
        .filter_map(|l| {
            let f: Vec<&str> = l.split('\t').collect();
            (f.len() == 5).then(|| Truth { name: f[0].into(), oid: opt(f[1]), peeled: opt(f[2]), sym: opt(f[3]), ty: f[4].into() })
        })
        .collect())
}

/// What a protocol version can say about the truth.
fn expected(truth: &[Truth], version: u8, prefixes: &[String]) -> BTreeSet<Norm> {
    let mut out = BTreeSet::new();
    for t in truth {
        if version == 2 && !prefixes.is_empty() && !prefixes.iter().any(|p| t.name.starts_with(p.as_str())) {
            continue;
        }
        let is_head = t.name == "HEAD";
        match (&t.oid, &t.sym) {
            (None, Some(target)) => {
                // unborn: only v2 can say so, and only for HEAD
                if version == 2 && is_head {
                    out.insert((t.name.clone(), "unborn", target.clone(), String::new(), String::new()));
                }
            }
            (None, None) => {}
            (Some(oid), sym) => {
                let peeled = t.peeled.clone().unwrap_or_default();
                let is_tag = &peeled != oid;
                // v0/v1 know the symbolic target of HEAD only (capability `symref=HEAD:<target>`); v2 of every ref
                let sym_known = sym.is_some() && (version == 2 || is_head);
                if sym_known {
                    out.insert((t.name.clone(), "symbolic", sym.clone().unwrap(), if is_tag { oid.clone() } else { String::new() }, peeled));
                } else if is_tag {
                    out.insert((t.name.clone(), "peeled", String::new(), oid.clone(), peeled));
                } else {
                    out.insert((t.name.clone(), "direct", String::new(), String::new(), oid.clone()));
                }
            }
        }
    }
    out
}

fn generate(seed: u64) -> Workload {
    let mut r = Rng::stream(seed, STREAM_WORKLOAD);
    let version = *r.pick(&[0u8, 1, 1, 2, 2, 2]);
    let prefixes: Vec<String> = if version == 2 {
        match r.below(6) {
            0 => vec!["refs/heads/".into()],
            1 => vec!["refs/tags/".into(), "HEAD".into()],
            2 => vec!["refs/heads/feat".into(), "refs/heads/b1".into()],
            3 => vec!["HEAD".into()],
            _ => vec![],
        }
    } else {
        vec![]
    };
    let plan = |r: &mut Rng| IoPlan { max_chunk: *r.pick(&[0usize, 0, 1, 3, 7, 100, 4000]), intr_permille: *r.pick(&[0u32, 0, 30, 200]), ..Default::default() };
    let mut read_plan = plan(&mut r);
    let write_plan = plan(&mut r);
    if r.chance(300) {
        read_plan.eof_at = Some(match r.below(3) {
            0 => r.below(64),
            1 => r.below(700),
            _ => r.below(20_000),
        });
    }
    Workload { fixture: r.usize_below(N_FIX), version, prefixes, read_plan, write_plan }
}

impl Scenario for Transport {
    fn name(&self) -> &'static str {
        "transport"
    }
    fn properties(&self) -> &'static [&'static str] {
        &[P]
    }
    fn isolated(&self) -> bool {
        false
    }
    fn jobs_hint(&self) -> usize {
        6
    }
    fn runs(&self, tier: Tier, _p: &str) -> u64 {
        match tier {
            Tier::Quick => 3_000,
            Tier::Thorough => 200_000,
        }
    }
    fn worker_init(&self, dir: &Path, _tier: Tier) {
        let out = std::process::Command::new("bash").arg("-c").arg(FIXTURE_SH).arg("fixture").arg(dir).output().expect("bash");
        if !out.status.success() {
            eprintln!("gixsim: transport fixture script failed: {} {}", String::from_utf8_lossy(&out.stdout), String::from_utf8_lossy(&out.stderr));
            std::process::exit(2);
        }
    }
    fn generate(&self, seed: u64, _t: Tier, _p: &str) -> Value {
        serde_json::to_value(generate(seed)).unwrap()
    }
    fn execute(&self, wv: &Value, ctx: &ExecCtx) -> Report {
        let mut rep = Report::default();
        let w: Workload = match serde_json::from_value(wv.clone()) {
            Ok(w) => w,
            Err(e) => {
                rep.harness_error = Some(format!("bad workload: {e}"));
                return rep;
            }
        };
        let truth = match load_truth(&ctx.worker_dir, w.fixture) {
            Ok(t) => t,
            Err(e) => {
                rep.harness_error = Some(format!("truth-{}: {e}", w.fixture));
                return rep;
            }
        };
        let srv = ctx.worker_dir.join(format!("srv-{}", w.fixture));
        let mut cmd = std::process::Command::new("git");
        cmd.arg("upload-pack").arg(&srv).env("LC_ALL", "C").env("GIT_CONFIG_NOSYSTEM", "1").env("GIT_CONFIG_GLOBAL", "/dev/null").env_remove("GIT_PROTOCOL");
        // exactly what gitoxide's own transports do when they spawn the server or greet a daemon: the version is
        // announced unless it is 1 (gix-transport/src/client/blocking_io/file.rs, git/mod.rs message::connect)
        if w.version != 1 {
            cmd.env("GIT_PROTOCOL", format!("version={}", w.version));
        }
        // per-fixture server environment (e.g. a namespace)
        for l in std::fs::read_to_string(ctx.worker_dir.join(format!("env-{}", w.fixture))).unwrap_or_default().lines() {
            if let Some((k, v)) = l.split_once('=') {
                cmd.env(k, v);
            }
        }
        let ch = Choices::new_plain(ctx.seed, STREAM_FAULT, ctx.replay.clone());
        let peer = match Peer::spawn(cmd, w.read_plan.clone(), w.write_plan.clone(), ch) {
            Ok(p) => p,
            Err(e) => {
                rep.harness_error = Some(format!("spawn git upload-pack: {e}"));
                return rep;
            }
        };
        let desired = match w.version {
            0 => gix_transport::Protocol::V0,
            1 => gix_transport::Protocol::V1,
            _ => gix_transport::Protocol::V2,
        };
        let prefixes = w.prefixes.clone();
        let (p1, p2) = (peer.clone(), peer.clone());
        let res = gixsim_rt::io::catch_panics(move || -> Result<(Vec<Ref>, gix_transport::Protocol), String> {
            let mut conn = gix_transport::client::git::Connection::new(PeerRead(p1), PeerWrite(p2), desired, srv.to_string_lossy().into_owned(), None::<(String, Option<u16>)>, ConnectMode::Process, false);
            let mut progress = gix_features::progress::Discard;
            let out = gix_protocol::handshake(&mut conn, gix_transport::Service::UploadPack, |_| unreachable!("no authentication on a pipe"), vec![], &mut progress).map_err(|e| format!("handshake: {}", chain(&e)))?;
            let actual = out.server_protocol_version;
            let refs = match out.refs {
                Some(r) => {
                    gix_protocol::indicate_end_of_interaction(&mut conn, false).map_err(|e| format!("end: {}", chain(&e)))?;
                    r
                }
                None => gix_protocol::ls_refs(
                    &mut conn,
                    &out.capabilities,
                    |_caps, args, _features| {
                        for p in &prefixes {
                            args.push(format!("ref-prefix {p}").into());
                        }
                        Ok(gix_protocol::ls_refs::Action::Continue)
                    },
                    &mut progress,
                    false,
                )
                .map_err(|e| format!("ls-refs: {}", chain(&e)))?,
            };
            Ok((refs, actual))
        });
        let (exit, dropped, received, sent_len, faults, rec, pump_err) = {
            let mut g = peer.lock().unwrap();
            let exit = g.finish();
            (exit, g.dropped, g.received, g.sent.len(), g.ch.faults.clone(), g.ch.rec.clone(), g.pump_error.clone())
        };
        rep.decisions = rec;
        rep.n_decisions = rep.decisions.len() as u64;
        rep.faults = faults;
        rep.ops = 1;
        rep.steps = received + sent_len as u64;
        rep.nontrivial = !rep.faults.is_empty();
        if let Some(e) = pump_err {
            rep.harness_error = Some(format!("pump: {e}"));
            return rep;
        }
        let shape = format!("fix={} v={} prefixes={}", w.fixture, w.version, w.prefixes.len());
        let outcome;
        match res {
            Err(panics) => {
                rep.violate(P, format!("transport panic {shape}"), format!("{panics:?}"));
                outcome = "panic".to_string();
            }
            Ok(Err(e)) => {
                outcome = format!("err:{}", e.split(':').next().unwrap_or(""));
                if !dropped {
                    rep.violate(P, format!("transport error-without-fault v={} | {shape}", w.version), format!("no destructive fault was injected, yet: {e} (server exit {exit:?})"));
                } else {
                    *rep.probes.entry("drop-reported-as-error".into()).or_insert(0) += 1;
                }
            }
            Ok(Ok((refs, actual))) => {
                // v0 and v1 are the same conversation (no version line is ever requested): both count as 1
                let want_v = if w.version == 2 { 2 } else { 1 };
                let got_v = match actual {
                    gix_transport::Protocol::V0 | gix_transport::Protocol::V1 => 1,
                    gix_transport::Protocol::V2 => 2,
                };
                if got_v != want_v {
                    rep.violate(P, format!("transport version-mismatch want={want_v} got={got_v}"), format!("{shape}"));
                }
                let exp = expected(&truth, w.version, &w.prefixes);
                let got: BTreeSet<Norm> = refs.iter().map(norm).collect();
                if got.len() != refs.len() {
                    rep.violate(P, format!("transport duplicate-ref v={} | {shape}", w.version), format!("{} refs reported, {} distinct", refs.len(), got.len()));
                }
                if got != exp {
                    let missing: Vec<&Norm> = exp.difference(&got).take(4).collect();
                    let extra: Vec<&Norm> = got.difference(&exp).take(4).collect();
                    let kind = if dropped { "after-drop" } else { "benign" };
                    let what = missing.first().map(|m| format!("missing-{}", m.1)).or_else(|| extra.first().map(|m| format!("extra-{}", m.1))).unwrap_or_default();
                    rep.violate(P, format!("transport refs-differ {kind} v={} {what} | {shape}", w.version), format!("expected but not reported: {missing:?}; reported but not expected: {extra:?}; {} expected, {} reported; connection dropped: {dropped}", exp.len(), got.len()));
                } else if dropped {
                    *rep.probes.entry("drop-after-last-needed-byte".into()).or_insert(0) += 1;
                }
                for r in &refs {
                    *rep.probes.entry(format!("ref-kind:{}", norm(r).1)).or_insert(0) += 1;
                }
                outcome = format!("ok:{}", refs.len());
            }
        }
        let st = Fnv::of(format!("{shape} {outcome} chunk={} intr={}", w.read_plan.max_chunk, w.read_plan.intr_permille > 0).as_bytes());
        rep.states.push(st);
        rep.log_hash = Fnv::of(format!("{outcome} {received} {sent_len}").as_bytes());
        rep.sched_hash = Fnv::of(format!("{:?}", rep.decisions).as_bytes());
        rep.summary = format!("{shape}: {outcome}; {received} bytes received, {sent_len} sent, dropped={dropped}, server exit {exit:?}");
        rep
    }
    fn shrink(&self, wv: &Value) -> Vec<Value> {
        let w: Workload = match serde_json::from_value(wv.clone()) {
            Ok(w) => w,
            Err(_) => return vec![],
        };
        let mut out = vec![];
        if !w.prefixes.is_empty() {
            let mut c = w.clone();
            c.prefixes.pop();
            out.push(c);
        }
        for f in [&|c: &mut Workload| c.read_plan.max_chunk = 0, &|c: &mut Workload| c.read_plan.intr_permille = 0, &|c: &mut Workload| c.write_plan = IoPlan::default(), &|c: &mut Workload| c.read_plan.eof_at = None] as [&dyn Fn(&mut Workload); 4] {
            let mut c = w.clone();
            f(&mut c);
            out.push(c);
        }
        out.into_iter().map(|c| serde_json::to_value(c).unwrap()).filter(|v| v != wv).collect()
    }
    fn real_stub(&self) -> Value {
        json!({
            "real": ["gix-transport git::Connection (blocking)", "gix-protocol handshake / ls_refs / ref parsing", "gix-packetline", "git upload-pack 2.39.5 as the server process (protocol v0, v1, v2)"],
            "simulated": ["the byte transport between them: seeded read chunking, Interrupted, short writes, connection drop after byte k; server output is collected up to its next quiescent point so that timing cannot be observed"],
            "stub": [],
        })
    }
    fn rule(&self, _p: &str) -> String {
        "distinct (fixture, protocol version, prefix set, outcome class, read chunking class)".into()
    }
    fn assumptions(&self, _p: &str) -> Vec<String> {
        vec![
            "ground truth per fixture is taken from git for-each-ref, git symbolic-ref (which resolves chains, as the server does) and rev-parse <ref>^{} when the fixture is made".into(),
            "what a protocol version cannot express is not demanded: v0/v1 carry the symbolic target of HEAD only and cannot report an unborn HEAD".into(),
            "after an injected connection drop the client may fail or, if everything needed had arrived, succeed with the exact set; any other set is a violation".into(),
        ]
    }
}
