//! gixsim-porcelain — the same simulator (gixsim-rt) for the properties that live in gix-protocol, gix-transport and
//! the `gix` crate (see /verif/DESIGN.md §4, C30/C31/C49).
#![allow(dead_code)]
mod peer;
mod scenarios;

fn main() {
    gixsim_rt::cli::cli_main(scenarios::all());
}
