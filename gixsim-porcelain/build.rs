fn main() {
    // export the interposed libc symbols dynamically too, so dlsym(RTLD_DEFAULT, ..) lookups (std's weak!) find them
    println!("cargo:rustc-link-arg-bins=-rdynamic");
}
